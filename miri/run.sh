#!/bin/bash
# miri/run.sh <scenario> <seed>   -> exit 0 ok, 1 violation (UB in the crates under test, or a failed
# assertion), 2 could not run.
# One (scenario, seed) is one exactly repeatable execution: Miri's scheduler is seeded, its entropy
# source is deterministic under isolation.
# A data race is attributed to the library only if one of the two conflicting accesses lies in the
# crates under test. A race wholly inside a dependency (crossbeam's AtomicCell reads its slot
# optimistically under a sequence lock, which Miri flags on every concurrent use) says nothing
# about the library: the scenario is then run again with the race detector off, so that its own
# assertions (round trip, agreement) still give a verdict for this schedule.
set -u
cd "$(dirname "$0")"
SCEN="$1"; SEED="${2:-1}"
export CARGO_NET_OFFLINE=true
unset RUSTFLAGS RUSTC_WRAPPER
mkdir -p target
run() { # $1 = extra flags, $2 = log
  MIRIFLAGS="-Zmiri-seed=$SEED -Zmiri-preemption-rate=0.05 $1" cargo +nightly miri run --offline -- "$SCEN" > "$2" 2>&1
}
LOG="target/miri-$SCEN-$SEED.log"
run "" "$LOG"; rc=$?
if [ $rc -eq 0 ] && grep -q "scenario $SCEN: ok" "$LOG"; then exit 0; fi
if grep -q "Data race detected" "$LOG"; then
  # the spans of the two accesses: the "-->" lines of the error block
  spans=$(awk '/Data race detected/{f=1} f&&/-->/{print $2} /stack backtrace|note: this is on thread/{if(f)exit}' "$LOG")
  if echo "$spans" | grep -q "/gm-sm2/\|/gm-sm3/\|/gm-sm4/\|/gm-sm9/\|/gm-zuc/"; then
    grep -m1 "Data race detected" "$LOG" | cut -c1-300; echo "$spans" | head -2
    exit 1
  fi
  echo "note: data race inside a dependency ($(echo "$spans" | head -1 | sed 's#.*/registry/src/[^/]*/##' | cut -c1-80)); re-running with the detector off for the scenario's own verdict"
  LOG2="target/miri-$SCEN-$SEED-norace.log"
  run "-Zmiri-disable-data-race-detector" "$LOG2"; rc=$?
  if [ $rc -eq 0 ] && grep -q "scenario $SCEN: ok" "$LOG2"; then exit 0; fi
  LOG="$LOG2"
fi
if grep -q "Undefined Behavior\|panicked at" "$LOG"; then
  grep -m3 "Undefined Behavior\|panicked at\|assertion" "$LOG" | cut -c1-300
  exit 1
fi
tail -5 "$LOG" | cut -c1-300
exit 2
