#!/bin/bash
# miri/run.sh <scenario> <seed> [repo dir]   -> exit 0 ok, 1 violation (UB or failed assertion), 2 could not run
# One (scenario, seed) is one exactly repeatable execution: Miri's scheduler is seeded, its entropy
# source is deterministic under isolation.
set -u
cd "$(dirname "$0")"
SCEN="$1"; SEED="${2:-1}"
export CARGO_NET_OFFLINE=true
export MIRIFLAGS="-Zmiri-seed=$SEED -Zmiri-preemption-rate=0.05"
unset RUSTFLAGS RUSTC_WRAPPER
LOG="target/miri-$SCEN-$SEED.log"
mkdir -p target
cargo +nightly miri run --offline -- "$SCEN" > "$LOG" 2>&1
rc=$?
if [ $rc -eq 0 ] && grep -q "scenario $SCEN: ok" "$LOG"; then exit 0; fi
if grep -q "Undefined Behavior\|panicked at\|Data race" "$LOG"; then
  grep -m3 "Undefined Behavior\|panicked at\|Data race\|assertion" "$LOG" | cut -c1-300
  exit 1
fi
tail -5 "$LOG" | cut -c1-300
exit 2
