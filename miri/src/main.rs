//! Two caller threads inside Miri. Miri interprets the library instruction by instruction, owns
//! the thread scheduler (`-Zmiri-seed` decides every pre-emption, so one seed is one exactly
//! repeatable execution) and keeps vector clocks for every memory location: two accesses to plain
//! memory that are not ordered by synchronisation are reported as a data race even when they did
//! not overlap in this particular execution. This is the part of the schedule space the simulator
//! proper (sim/) cannot reach: its switch points are RNG draws and std::sync primitives, so state
//! shared through `static mut` / `UnsafeCell` without any primitive has no switch point there.
//!
//! Each scenario is a miniature of the corresponding check's two-caller runs: two callers with
//! different keys do the operation side by side in a FRESH process (nothing initialised yet), then
//! the results are judged by round trip / agreement. Interpreting a scalar multiplication costs
//! about a minute, so the scenarios are small and run in the thorough tier only; SM9 signing and
//! encryption (a pairing each) are out of reach.
use gm_sm2::exchange;
use gm_sm2::key::{gen_keypair, Sm2Model, Sm2PublicKey};

fn two<T: Send + 'static>(f: impl Fn(usize) -> T + Send + Sync + 'static) -> Vec<T> {
    let f = std::sync::Arc::new(f);
    let hs: Vec<_> = (0..2)
        .map(|i| {
            let f = f.clone();
            std::thread::spawn(move || f(i))
        })
        .collect();
    hs.into_iter().map(|h| h.join().expect("caller thread panicked")).collect()
}

fn sm2_encrypt() {
    // two recipients, two senders at once, then both decrypt at once
    let keys: Vec<_> = (0..2).map(|_| gen_keypair().unwrap()).collect();
    let pks: Vec<Sm2PublicKey> = keys.iter().map(|k| k.0.clone()).collect();
    let cts = two(move |i| pks[i].encrypt(&[i as u8 + 1; 19], i == 1, Sm2Model::C1C3C2).unwrap());
    let sks: Vec<_> = keys.iter().map(|k| k.1.clone()).collect();
    let pts = two(move |i| sks[i].decrypt(&cts[i], i == 1, Sm2Model::C1C3C2).unwrap());
    for (i, p) in pts.iter().enumerate() {
        assert_eq!(p, &vec![i as u8 + 1; 19], "decrypt(encrypt(M)) != M for caller {i}");
    }
}

fn sm2_sign() {
    let keys: Vec<_> = (0..2).map(|_| gen_keypair().unwrap()).collect();
    let ks = keys.clone();
    let sigs = two(move |i| ks[i].1.sign(Some("two-callers"), &[i as u8; 33]).unwrap());
    let oks = two(move |i| keys[i].0.verify(Some("two-callers"), &[i as u8; 33], &sigs[i]).is_ok());
    assert!(oks.iter().all(|b| *b), "a genuine signature made beside another caller does not verify");
}

fn sm2_sign_shared() {
    // both callers use the SAME key and the same ID for the first time at the same moment
    // (a worker pool starting up): whatever is memoised per (ID, key) is filled by two callers
    let (pk, sk) = gen_keypair().unwrap();
    let sk2 = sk.clone();
    let sigs = two(move |i| sk2.sign(Some("shared-signer"), &[0x40 + i as u8; 21]).unwrap());
    for (i, sig) in sigs.iter().enumerate() {
        assert!(pk.verify(Some("shared-signer"), &[0x40 + i as u8; 21], sig).is_ok(), "a signature made while another caller first used the same key does not verify");
    }
}

fn sm2_keygen() {
    // the generator itself: two callers draw at once; what they get must differ
    let ds = two(|_| (0..3).map(|_| gen_keypair().unwrap().1.to_bytes_be()).collect::<Vec<_>>());
    let mut all: Vec<_> = ds.into_iter().flatten().collect();
    let n = all.len();
    all.sort();
    all.dedup();
    assert_eq!(all.len(), n, "two callers obtained the same private key");
}

fn sm2_decode() {
    // compressed public keys decoded side by side (square root path), one of them seen before
    let keys: Vec<_> = (0..2).map(|_| gen_keypair().unwrap().0.to_bytes(true)).collect();
    let first = Sm2PublicKey::new(&keys[0]).unwrap().to_bytes(false);
    let ks = keys.clone();
    let out = two(move |i| Sm2PublicKey::new(&ks[i]).map(|p| p.to_bytes(false)).ok());
    assert_eq!(out[0].as_ref(), Some(&first), "a compressed key decodes differently beside another caller");
    assert!(out[1].is_some(), "a valid compressed key is refused beside another caller");
}

fn sm2_kex() {
    // one agreement; the two parties are two threads (their steps alternate through channels)
    let (mut a, mut b) = exchange::build_ex_pair(16, "alice", "bob").unwrap();
    let (tx1, rx1) = std::sync::mpsc::channel();
    let (tx2, rx2) = std::sync::mpsc::channel();
    let (tx3, rx3) = std::sync::mpsc::channel();
    let ha = std::thread::spawn(move || {
        let ra = a.exchange_1().unwrap();
        tx1.send(ra).unwrap();
        let (rb, sb) = rx2.recv().unwrap();
        let sa = a.exchange_3(&rb, sb).unwrap();
        tx3.send(sa).unwrap();
        a
    });
    let hb = std::thread::spawn(move || {
        let ra = rx1.recv().unwrap();
        let (rb, sb) = b.exchange_2(&ra).unwrap();
        tx2.send((rb, sb)).unwrap();
        let sa = rx3.recv().unwrap();
        b.exchange_4(sa, &ra).unwrap();
        b
    });
    let (a, b) = (ha.join().unwrap(), hb.join().unwrap());
    let _ = (a, b);
}

fn zuc() {
    let out = two(|i| {
        let key = [i as u8 + 1; 16];
        let iv = [0x55 ^ i as u8; 16];
        let mut z = gm_zuc::ZUC::new(&key, &iv);
        let mut v = z.generate_keystream(300);
        v.extend(z.generate_keystream(17));
        v
    });
    // the same streams produced alone, afterwards
    for (i, got) in out.iter().enumerate() {
        let mut z = gm_zuc::ZUC::new(&[i as u8 + 1; 16], &[0x55 ^ i as u8; 16]);
        let want = z.generate_keystream(317);
        assert_eq!(got, &want, "keystream of generator {i} differs when produced beside another caller");
    }
}

fn sm9_kex1() {
    use gm_sm9::key::Sm9EncMasterKey;
    // first handshake messages of two initiators in a fresh process
    let mk = Sm9EncMasterKey::master_key_generate();
    let mk2 = mk.clone();
    let ras = two(move |i| gm_sm9::key::exch_step_1a(&mk2, if i == 0 { b"Bob".as_slice() } else { b"Carol".as_slice() }));
    let _ = ras;
}

fn sm9_rng() {
    // the group order N of SM9 (little-endian 64-bit limbs)
    let n: [u64; 4] = [0xe56ee19cd69ecf25, 0x49f2934b18ea8bee, 0xd603ab4ff58ec744, 0xb640000002a3a6f1];
    let v = two(move |_| (0..64).map(|_| gm_sm9::u256::sm9_random_u256(&n)).collect::<Vec<_>>());
    let mut all: Vec<_> = v.into_iter().flatten().collect();
    let k = all.len();
    all.sort();
    all.dedup();
    assert_eq!(all.len(), k, "two callers obtained the same SM9 scalar");
}

fn main() {
    let s = std::env::args().nth(1).unwrap_or_default();
    match s.as_str() {
        "sm2-encrypt" => sm2_encrypt(),
        "sm2-sign" => sm2_sign(),
        "sm2-sign-shared" => sm2_sign_shared(),
        "sm2-keygen" => sm2_keygen(),
        "sm2-decode" => sm2_decode(),
        "sm2-kex" => sm2_kex(),
        "zuc" => zuc(),
        "sm9-kex1" => sm9_kex1(),
        "sm9-rng" => sm9_rng(),
        _ => {
            eprintln!("scenarios: sm2-encrypt sm2-sign sm2-sign-shared sm2-keygen sm2-decode sm2-kex zuc sm9-kex1 sm9-rng");
            std::process::exit(2)
        }
    }
    println!("scenario {s}: ok");
}
