# Throwaway feasibility prototype: affine big-int SM2 reference + recalled GM/T 0003.5 annex vectors
from sm9ref import sm3
p=0xFFFFFFFEFFFFFFFFFFFFFFFFFFFFFFFFFFFFFFFF00000000FFFFFFFFFFFFFFFF
a=p-3
b=0x28E9FA9E9D9F5E344D5A9E4BCF6509A7F39789F515AB8F92DDBCBD414D940E93
n=0xFFFFFFFEFFFFFFFFFFFFFFFFFFFFFFFF7203DF6B21C6052B53BBF40939D54123
G=(0x32C4AE2C1F1981195F9904466A39C9948FE30BBFF2660BE1715A4589334C74C7,0xBC3736A2F4F6779C59BDCEE36B692153D0A9877CC62A474002DF32E52139F0A0)
def add(P,Q):
    if P is None: return Q
    if Q is None: return P
    if P[0]==Q[0]:
        if (P[1]+Q[1])%p==0: return None
        l=(3*P[0]*P[0]+a)*pow(2*P[1],-1,p)%p
    else: l=(Q[1]-P[1])*pow(Q[0]-P[0],-1,p)%p
    x=(l*l-P[0]-Q[0])%p; return (x,(l*(P[0]-x)-P[1])%p)
def mul(k,P):
    R=None
    for c in bin(k)[2:]:
        R=add(R,R)
        if c=='1': R=add(R,P)
    return R
B32=lambda x:x.to_bytes(32,'big')
def za(ID,P): return sm3((len(ID)*8).to_bytes(2,'big')+ID+B32(a)+B32(b)+B32(G[0])+B32(G[1])+B32(P[0])+B32(P[1]))
def kdf(z,klen):
    out=b''; ct=1
    while len(out)<klen: out+=sm3(z+ct.to_bytes(4,'big')); ct+=1
    return out[:klen]
def sign(d,ID,M,k):
    P=mul(d,G); e=int.from_bytes(sm3(za(ID,P)+M),'big'); x1=mul(k,G)[0]; r=(e+x1)%n
    s=pow(1+d,-1,n)*(k-r*d)%n; return r,s
def enc(P,M,k):
    C1=mul(k,G); S=mul(k,P); t=kdf(B32(S[0])+B32(S[1]),len(M)); C2=bytes(x^y for x,y in zip(M,t)); C3=sm3(B32(S[0])+M+B32(S[1]))
    return C1,C3,C2
if __name__=='__main__':
    d=0x3945208F7B2144B13F36E38AC6D39F95889393692860B51A42FB81EF4DF7C5B8
    k=0x59276E27D506861A16680F3AD9C02DCCEF3CC1FA3CDBE4CE6D54B80DEAC1BC21
    r,s=sign(d,b'1234567812345678',b'message digest',k)
    print('r=%064X\ns=%064X'%(r,s))
    print('exp F5A03B0648D2C4630EEAC513E1BB81A15944DA3827D5B74143AC7EACEEE720B3 / B1B6AA29DF212FD8763182BC0D421CA1BB9038FD1F7F42D4840B69C485BBC1AA')
    C1,C3,C2=enc(mul(d,G),b'encryption standard',k)
    print('C1=%064X%064X\nC3=%s\nC2=%s'%(C1[0],C1[1],C3.hex().upper(),C2.hex().upper()))
    print('exp C3 59983C18F809E262923C53AEC295D30383B54E39D609D160AFCB1908D0BD8766 C2 21886CA989CA9C7D58087307CA93092D651EFA')
    # key exchange annex
    dA=0x81EB26E941BB5AF16DF116495F90695272AE2CD63D6C4AE1678418BE48230029
    dB=0x785129917D45A9EA5437A59356B82338EAADDA6CEB199088F14AE10DEFA229B5
    rA=0xD4DE15474DB74D06491C440D305E012400990F3E390C7E87153C12DB2EA60BB3
    rB=0x7E07124814B309489125EAED101113164EBF0F3458C5BD88335C1F9D596243D6
    ID=b'1234567812345678'
    PA=mul(dA,G); PB=mul(dB,G); ZA=za(ID,PA); ZB=za(ID,PB); RA=mul(rA,G); RB=mul(rB,G); w=127
    xb=lambda x:(1<<w)+(x&((1<<w)-1))
    tB=(dB+xb(RB[0])*rB)%n; V=mul(tB, add(PA, mul(xb(RA[0]),RA)))
    K=kdf(B32(V[0])+B32(V[1])+ZA+ZB,16)
    inner=sm3(B32(V[0])+ZA+ZB+B32(RA[0])+B32(RA[1])+B32(RB[0])+B32(RB[1]))
    SB=sm3(b'\x02'+B32(V[1])+inner); SA=sm3(b'\x03'+B32(V[1])+inner)
    print('K=%s\nSB=%s\nSA=%s'%(K.hex().upper(),SB.hex().upper(),SA.hex().upper()))
    print('exp K 6C89347354DE2484C60B4AB1FDE4C6E5 SB D3A0FE15DEE185CEAE907A6B595CC32A266ED7B3367E9983A896DC32FA20F8EB SA 18C7894B3816DF16CF07B05C5EC0BEF5D655D58F779CC1B400A4F3884644DB88')
