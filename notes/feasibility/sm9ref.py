# Throwaway feasibility prototype: textbook R-ate pairing over Fp12 = Fp[w]/(w^12+2)
import sys, time
p = 0xB640000002A3A6F1D603AB4FF58EC74521F2934B1A7AEEDBE56F9B27E351457D
N = 0xB640000002A3A6F1D603AB4FF58EC74449F2934B18EA8BEEE56EE19CD69ECF25
t = 0x600000000058F98A
# --- SM3 ---
def rotl(x,n): n%=32; return ((x<<n)|(x>>(32-n)))&0xffffffff
def sm3(m):
    m=bytes(m); l=len(m)*8; m+=b'\x80'; m+=b'\x00'*((56-len(m)%64)%64); m+=l.to_bytes(8,'big')
    V=[0x7380166f,0x4914b2b9,0x172442d7,0xda8a0600,0xa96f30bc,0x163138aa,0xe38dee4d,0xb0fb0e4e]
    for i in range(0,len(m),64):
        W=[int.from_bytes(m[i+4*j:i+4*j+4],'big') for j in range(16)]
        for j in range(16,68):
            x=W[j-16]^W[j-9]^rotl(W[j-3],15); x=x^rotl(x,15)^rotl(x,23)
            W.append(x^rotl(W[j-13],7)^W[j-6])
        W1=[W[j]^W[j+4] for j in range(64)]
        A,B,C,D,E,F,G,H=V
        for j in range(64):
            T=0x79cc4519 if j<16 else 0x7a879d8a
            SS1=rotl((rotl(A,12)+E+rotl(T,j))&0xffffffff,7); SS2=SS1^rotl(A,12)
            if j<16: FF=A^B^C; GG=E^F^G
            else: FF=(A&B)|(A&C)|(B&C); GG=(E&F)|((~E)&G&0xffffffff)
            TT1=(FF+D+SS2+W1[j])&0xffffffff; TT2=(GG+H+SS1+W[j])&0xffffffff
            D=C; C=rotl(B,9); B=A; A=TT1; H=G; G=rotl(F,19); F=E; E=TT2^rotl(TT2,9)^rotl(TT2,17)
        V=[a^b for a,b in zip(V,[A,B,C,D,E,F,G,H])]
    return b''.join(v.to_bytes(4,'big') for v in V)
assert sm3(b'abc').hex()=='66c7f0f462eeedd9d1f2d46bdc10e4e24167c4875cf2f7a2297da02b8f4ba8e0'
# --- Fp12 flat: list of 12 ints, w^12 = -2 ---
def f_add(a,b): return [(x+y)%p for x,y in zip(a,b)]
def f_sub(a,b): return [(x-y)%p for x,y in zip(a,b)]
def f_mul(a,b):
    r=[0]*23
    for i,x in enumerate(a):
        if x:
            for j,y in enumerate(b):
                if y: r[i+j]+=x*y
    for k in range(22,11,-1): r[k-12]-=2*r[k]
    return [x%p for x in r[:12]]
def f_const(c): return [c%p]+[0]*11
ONE=f_const(1)
def f_pow(a,e):
    r=ONE
    for bit in bin(e)[2:]:
        r=f_mul(r,r)
        if bit=='1': r=f_mul(r,a)
    return r
def f_inv(a):
    # a^-1 = conj-product trick is overkill: use a^(p^12-2)? too slow. Solve linear system instead.
    # Build 12x12 matrix of multiplication-by-a, invert by Gaussian elimination mod p.
    M=[[0]*13 for _ in range(12)]
    for j in range(12):
        e=[0]*12; e[j]=1; col=f_mul(a,e)
        for i in range(12): M[i][j]=col[i]
    M[0][12]=1
    for c in range(12):
        piv=next(r for r in range(c,12) if M[r][c]%p)
        M[c],M[piv]=M[piv],M[c]; inv=pow(M[c][c],-1,p); M[c]=[x*inv%p for x in M[c]]
        for r in range(12):
            if r!=c and M[r][c]:
                f=M[r][c]; M[r]=[(x-f*y)%p for x,y in zip(M[r],M[c])]
    return [M[i][12] for i in range(12)]
def fp2_to_f(c0,c1):  # c0 + c1*u, u=w^6
    r=[0]*12; r[0]=c0%p; r[6]=c1%p; return r
W_=[0]*12; W_[1]=1
W2=f_mul(W_,W_); W3=f_mul(W2,W_); W2i=f_inv(W2); W3i=f_inv(W3)
def untwist(Q):  # Q=((x0,x1),(y0,y1)) on E': y^2=x^3+5u -> E(Fp12): y^2=x^3+5
    (x0,x1),(y0,y1)=Q
    return (f_mul(fp2_to_f(x0,x1),W2i), f_mul(fp2_to_f(y0,y1),W3i))
def on_curve12(P): x,y=P; return f_mul(y,y)==f_add(f_mul(f_mul(x,x),x),f_const(5))
# affine group law on E(Fp12) (a=0), None = infinity
def e_add(P,Q):
    if P is None: return Q
    if Q is None: return P
    x1,y1=P; x2,y2=Q
    if x1==x2:
        if y1==y2: lam=f_mul(f_mul(f_const(3),f_mul(x1,x1)), f_inv(f_add(y1,y1)))
        else: return None
    else: lam=f_mul(f_sub(y2,y1), f_inv(f_sub(x2,x1)))
    x3=f_sub(f_sub(f_mul(lam,lam),x1),x2); y3=f_sub(f_mul(lam,f_sub(x1,x3)),y1)
    return (x3,y3)
def e_neg(P): return None if P is None else (P[0],[(-c)%p for c in P[1]])
def line(T,Q,P):
    """value at P of the line through T and Q (tangent if T==Q); returns (value, T+Q)"""
    x1,y1=T; x2,y2=Q; xP,yP=P
    if x1==x2 and y1!=y2:  # vertical
        return f_sub(xP,x1), None
    if x1==x2: lam=f_mul(f_mul(f_const(3),f_mul(x1,x1)), f_inv(f_add(y1,y1)))
    else: lam=f_mul(f_sub(y2,y1), f_inv(f_sub(x2,x1)))
    val=f_sub(f_sub(yP,y1), f_mul(lam,f_sub(xP,x1)))
    x3=f_sub(f_sub(f_mul(lam,lam),x1),x2); y3=f_sub(f_mul(lam,f_sub(x1,x3)),y1)
    return val,(x3,y3)
def frob_pt(Q): return (f_pow(Q[0],p), f_pow(Q[1],p))
def rate(P1, Q2):
    """P1=(x,y) ints in G1; Q2 twist point. returns Fp12 flat."""
    P=(f_const(P1[0]),f_const(P1[1])); Q=untwist(Q2); assert on_curve12(Q)
    a=6*t+2; f=ONE; T=Q
    for bit in bin(a)[3:]:
        l,T=line(T,T,P); f=f_mul(f_mul(f,f),l)
        if bit=='1': l,T=line(T,Q,P); f=f_mul(f,l)
    Q1=frob_pt(Q); Q2_=e_neg(frob_pt(Q1))
    l,T=line(T,Q1,P); f=f_mul(f,l)
    l,T=line(T,Q2_,P); f=f_mul(f,l)
    return f_pow(f,(p**12-1)//N)
ORDER=[11,5,8,2,10,4,7,1,9,3,6,0]
def f_bytes(a): return b''.join(a[i].to_bytes(32,'big') for i in ORDER)
# affine G1 / G2 arithmetic for key gen (G2 via untwisted Fp12 arithmetic then twist back is heavy; do Fp2 directly)
def g1_add(P,Q):
    if P is None: return Q
    if Q is None: return P
    if P[0]==Q[0]:
        if (P[1]+Q[1])%p==0: return None
        lam=3*P[0]*P[0]*pow(2*P[1],-1,p)%p
    else: lam=(Q[1]-P[1])*pow(Q[0]-P[0],-1,p)%p
    x=(lam*lam-P[0]-Q[0])%p; return (x,(lam*(P[0]-x)-P[1])%p)
def g1_mul(k,P):
    R=None
    for b in bin(k)[2:]:
        R=g1_add(R,R)
        if b=='1': R=g1_add(R,P)
    return R
def m2(a,b): return ((a[0]*b[0]-2*a[1]*b[1])%p,(a[0]*b[1]+a[1]*b[0])%p)
def i2(a): d=pow(a[0]*a[0]+2*a[1]*a[1],-1,p); return (a[0]*d%p,(-a[1])*d%p)
def a2(a,b): return ((a[0]+b[0])%p,(a[1]+b[1])%p)
def s2(a,b): return ((a[0]-b[0])%p,(a[1]-b[1])%p)
def g2_add(P,Q):
    if P is None: return Q
    if Q is None: return P
    if P[0]==Q[0]:
        if a2(P[1],Q[1])==(0,0): return None
        lam=m2(m2((3,0),m2(P[0],P[0])), i2(a2(P[1],P[1])))
    else: lam=m2(s2(Q[1],P[1]), i2(s2(Q[0],P[0])))
    x=s2(s2(m2(lam,lam),P[0]),Q[0]); return (x, s2(m2(lam,s2(P[0],x)),P[1]))
def g2_mul(k,P):
    R=None
    for b in bin(k)[2:]:
        R=g2_add(R,R)
        if b=='1': R=g2_add(R,P)
    return R
G1=(0x93DE051D62BF718FF5ED0704487D01D6E1E4086909DC3280E8C4E4817C66DDDD,0x21FE8DDA4F21E607631065125C395BBC1C1C00CBFA6024350C464CD70A3EA616)
G2=((0x3722755292130B08D2AAB97FD34EC120EE265948D19C17ABF9B7213BAF82D65B,0x85AEF3D078640C98597B6027B441A01FF1DD2C190F5E93C454806C11D8806141),
    (0xA7CF28D519BE3DA65F3170153D278FF247EFBA98A71A08116215BBA5C999A7C7,0x17509B092E845C1266BA0D262CBEE6ED0736A96FA347C8BD856DC76B84EBEB96))
def Hn(prefix,z):
    ha=sm3(bytes([prefix])+z+b'\x00\x00\x00\x01')+sm3(bytes([prefix])+z+b'\x00\x00\x00\x02')
    return int.from_bytes(ha[:40],'big')%(N-1)+1
if __name__=='__main__':
    t0=time.time()
    ks=0x000130E78459D78545CB54C587E02CF480CE0B66340F319F348A1D5B1F2DC5F4
    Ppubs=g2_mul(ks,G2)
    print('Ppubs.x.c1=%064X'%Ppubs[0][1])
    g=rate(G1,Ppubs); print('pairing time %.2fs'%(time.time()-t0))
    print('g[0:32]=',f_bytes(g)[:32].hex())
    r=0x00033C8616B06704813203DFD00965022ED15975C662337AED648835DC4B1CBE
    w=f_pow(g,r); M=b'Chinese IBS standard'
    h=Hn(2,M+f_bytes(w)); print('h=%064x'%h)
    print('expected 823c4b21e4bd2dfe1ed92c606653e996668563152fc33f55d7bfbb9bd9705adb')
    # bilinearity sanity
    g11=rate(G1,G2); a=123456789; b=987654321
    lhs=rate(g1_mul(a,G1), g2_mul(b,G2)); print('bilinear', lhs==f_pow(g11,a*b%N), 'nondegenerate', g11!=ONE, 'order', f_pow(g11,N)==ONE)
