#!/bin/bash
# Build the simulator offline from files on disk and run the reference self-tests.
set -eu
cd "$(dirname "$0")"
export CARGO_NET_OFFLINE=true
export RUSTFLAGS="--cfg gm_rs_verif"
mkdir -p sim/target/simstd
export GMSIM_SIMSTD="$PWD/sim/target/simstd/libsimstd.rlib"
export RUSTC_WRAPPER="$PWD/sim/rustc-wrapper.sh"
rustc --edition 2021 -C opt-level=3 --crate-type rlib --crate-name simstd sim/simstd/lib.rs -o "$GMSIM_SIMSTD"
# the facade must accept everything std::sync offers (a library change may use any of it)
rustc --edition 2021 --crate-type rlib --crate-name api sim/simstd/api_test.rs --extern "std=$GMSIM_SIMSTD" -o sim/target/simstd/libapi_test.rlib
( cd sim && cargo build --release --offline 2>&1 | tail -3 )
cc -O2 -shared -fPIC -o sim/target/simenv.so sim/shim/simenv.c
sim/target/release/gmsim selftest
