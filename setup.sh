#!/bin/bash
# Build the simulator offline from files on disk and run the reference self-tests.
set -eu
cd "$(dirname "$0")"
export CARGO_NET_OFFLINE=true
export RUSTFLAGS="--cfg gm_rs_verif"
( cd sim && cargo build --release --offline 2>&1 | tail -3 )
cc -O2 -shared -fPIC -o sim/target/simenv.so sim/shim/simenv.c
sim/target/release/gmsim selftest
