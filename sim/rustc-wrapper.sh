#!/bin/bash
# RUSTC_WRAPPER for the simulator's build: the crates under test (gm_*) get sim/simstd as their
# `std` (scheduling points at std::sync primitives, see simstd/lib.rs); the simulator itself gets it
# under its own name to install the hooks. Every other crate is compiled exactly as cargo asks.
rustc="$1"; shift
S="${GMSIM_SIMSTD:?GMSIM_SIMSTD not set}"
extra=()
prev=""
for a in "$@"; do
  if [ "$prev" = "--crate-name" ]; then
    case "$a" in
      gm_sm2|gm_sm3|gm_sm4|gm_sm9|gm_zuc) extra=(--extern "std=$S" -L "dependency=$(dirname "$S")");;
      gmsim) extra=(--extern "simstd=$S" -L "dependency=$(dirname "$S")");;
    esac
  fi
  prev="$a"
done
exec "$rustc" "$@" "${extra[@]}"
