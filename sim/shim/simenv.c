/* Simulated process environment for C14 (LD_PRELOAD): every clock, the process id and the parent id
 * are what the simulator says, so two fresh processes started under the same simulated environment
 * differ in nothing but what the operating system's entropy source hands them. A generator whose
 * scalars then coincide across the two processes does not draw them from that source.
 * CLOCK_REALTIME is frozen at GMSIM_CLOCK_NS; the other clocks advance by 1 ns per reading. */
#define _GNU_SOURCE
#include <stdlib.h>
#include <sys/time.h>
#include <sys/types.h>
#include <time.h>
#include <unistd.h>

static long long base_ns(void) {
    const char *e = getenv("GMSIM_CLOCK_NS");
    return e ? atoll(e) : 1790000000000000000LL;
}
static long long tick;

int clock_gettime(clockid_t id, struct timespec *ts) {
    long long t = base_ns();
    if (id != CLOCK_REALTIME && id != CLOCK_REALTIME_COARSE) t = 1000000000LL + (tick++);
    ts->tv_sec = t / 1000000000LL;
    ts->tv_nsec = t % 1000000000LL;
    return 0;
}
int gettimeofday(struct timeval *tv, void *tz) {
    (void)tz;
    long long t = base_ns();
    if (tv) { tv->tv_sec = t / 1000000000LL; tv->tv_usec = (t % 1000000000LL) / 1000; }
    return 0;
}
time_t time(time_t *out) {
    time_t t = (time_t)(base_ns() / 1000000000LL);
    if (out) *out = t;
    return t;
}
pid_t getpid(void) {
    const char *e = getenv("GMSIM_PID");
    return e ? (pid_t)atoi(e) : 4242;
}
pid_t getppid(void) { return 4241; }
