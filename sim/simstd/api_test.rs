#![allow(unused, deprecated)]
use std::sync::{Arc, Weak, Mutex, MutexGuard, RwLock, RwLockReadGuard, RwLockWriteGuard, Once, OnceLock, LazyLock, Condvar, Barrier, PoisonError, TryLockError, TryLockResult, LockResult, OnceState, WaitTimeoutResult};
use std::sync::mpsc::{channel, sync_channel, Sender, Receiver};
use std::sync::atomic::{AtomicBool, AtomicU8, AtomicU16, AtomicU32, AtomicU64, AtomicUsize, AtomicI8, AtomicI16, AtomicI32, AtomicI64, AtomicIsize, AtomicPtr, Ordering, fence, compiler_fence};
use std::collections::HashMap;
use std::thread;
use std::time::{Duration, Instant, SystemTime, UNIX_EPOCH};
use std::cell::{Cell, RefCell, OnceCell};

static M: Mutex<Vec<u8>> = Mutex::new(Vec::new());
static R: RwLock<Option<u32>> = RwLock::new(None);
static O: Once = Once::new();
static OL: OnceLock<HashMap<u32, u32>> = OnceLock::new();
static LL: LazyLock<Mutex<HashMap<String, u32>>> = LazyLock::new(|| Mutex::new(HashMap::new()));
static A: AtomicU64 = AtomicU64::new(0);
static B: AtomicBool = AtomicBool::new(false);
static P: AtomicPtr<u8> = AtomicPtr::new(std::ptr::null_mut());
thread_local! { static T: RefCell<u32> = RefCell::new(0); }

#[derive(Default, Debug)]
struct S { m: Mutex<u32>, r: RwLock<String>, a: AtomicUsize, o: OnceLock<u8> }

pub fn f() -> u64 {
    { let mut g: MutexGuard<'_, Vec<u8>> = M.lock().unwrap(); g.push(1); }
    match M.try_lock() { Ok(g) => drop(g), Err(TryLockError::WouldBlock) => {}, Err(TryLockError::Poisoned(e)) => drop(e.into_inner()) }
    let _ = M.is_poisoned();
    M.clear_poison();
    { let g: RwLockReadGuard<'_, Option<u32>> = R.read().unwrap(); let _ = *g; }
    { let mut g: RwLockWriteGuard<'_, Option<u32>> = R.write().unwrap_or_else(|e: PoisonError<_>| e.into_inner()); *g = Some(1); }
    O.call_once(|| {});
    let _ = O.is_completed();
    let m = OL.get_or_init(HashMap::new);
    let _ = OL.get();
    LL.lock().unwrap().insert("a".into(), 1);
    A.fetch_add(1, Ordering::SeqCst); A.store(2, Ordering::Release); let v = A.load(Ordering::Acquire);
    let _ = A.compare_exchange(2, 3, Ordering::SeqCst, Ordering::SeqCst);
    let _ = A.fetch_update(Ordering::SeqCst, Ordering::SeqCst, |x| Some(x + 1));
    B.store(true, Ordering::Relaxed); let _ = B.swap(false, Ordering::AcqRel);
    fence(Ordering::SeqCst); compiler_fence(Ordering::SeqCst);
    let s = S::default(); *s.m.lock().unwrap() += 1; s.a.fetch_add(1, Ordering::Relaxed); let _ = s.o.set(1);
    let _ = format!("{:?}", s);
    let arc = Arc::new(Mutex::new(0u32)); let w: Weak<Mutex<u32>> = Arc::downgrade(&arc);
    let pair = Arc::new((Mutex::new(false), Condvar::new()));
    let p2 = pair.clone();
    let h = thread::spawn(move || { let (l, c) = &*p2; *l.lock().unwrap() = true; c.notify_one(); });
    { let (l, c) = &*pair; let mut g = l.lock().unwrap(); while !*g { g = c.wait(g).unwrap(); } }
    h.join().unwrap();
    let (tx, rx): (Sender<u32>, Receiver<u32>) = channel(); tx.send(1).unwrap(); let _ = rx.recv().unwrap();
    let mm = Mutex::from(3u32); let inner = mm.into_inner().unwrap();
    let mut m2 = Mutex::new(1); *m2.get_mut().unwrap() = 2;
    let rr = RwLock::from(1u8); let _ = rr.into_inner();
    let t0 = Instant::now(); let _ = t0.elapsed(); let _ = SystemTime::now().duration_since(UNIX_EPOCH).unwrap().as_nanos();
    let ab = AtomicU32::from(3); let _ = ab.into_inner();
    let mut au = AtomicUsize::new(1); *au.get_mut() = 2;
    T.with(|c| *c.borrow_mut() += 1);
    v + inner as u64
}
