//! What the crates under test see as `std` when they are built for the simulator
//! (`rustc --extern std=libsimstd.rlib`, added by sim/rustc-wrapper.sh for the gm_* crates only).
//!
//! It IS std (`pub use std::*`), except that the blocking and atomic primitives of `std::sync`
//! are thin wrappers that announce a SCHEDULING POINT to the simulator before they act. gm-rs has
//! no threads of its own, but its callers may have, and whatever a change to the library keeps
//! process-wide (a `static` cache behind a Mutex, a counter) is shared between them. With these
//! points, and the RNG seam, the simulator decides exactly where control passes from one caller
//! thread to the other, so an interleaving is a replayable input instead of an accident of timing.
//!
//! No source line of the library changes; with the ordinary std (every build but the simulator's)
//! none of this exists. Outside a simulated two-caller operation the hooks are no-ops.
#![allow(clippy::all)]

pub use std::*;

pub mod simhook {
    use std::sync::atomic::{AtomicUsize, Ordering};
    /// called before a primitive acts
    pub type PointFn = fn(&'static str);
    /// called when a lock is held by someone else: true = the simulator ran the other caller, try
    /// again; false = not simulated here, block for real
    pub type BlockedFn = fn(&'static str) -> bool;
    /// a caller has taken (or tried to take) the lock at this address
    pub type TouchedFn = fn(usize);
    /// should a `try_*` on the lock at this address find it taken? (another simulated caller uses
    /// the same lock; in a real execution it may be inside its critical section right now)
    pub type ContendedFn = fn(usize) -> bool;
    static POINT: AtomicUsize = AtomicUsize::new(0);
    static BLOCKED: AtomicUsize = AtomicUsize::new(0);
    static TOUCHED: AtomicUsize = AtomicUsize::new(0);
    static CONTENDED: AtomicUsize = AtomicUsize::new(0);
    pub fn install_contention(t: TouchedFn, c: ContendedFn) {
        TOUCHED.store(t as usize, Ordering::SeqCst);
        CONTENDED.store(c as usize, Ordering::SeqCst);
    }
    #[inline]
    pub fn touched(addr: usize) {
        let f = TOUCHED.load(Ordering::Relaxed);
        if f != 0 && NO_YIELD.with(|c| c.get()) == 0 {
            let f: TouchedFn = unsafe { std::mem::transmute(f) };
            f(addr)
        }
    }
    #[inline]
    pub fn contended(addr: usize) -> bool {
        let f = CONTENDED.load(Ordering::Relaxed);
        if f != 0 && NO_YIELD.with(|c| c.get()) == 0 {
            let f: ContendedFn = unsafe { std::mem::transmute(f) };
            f(addr)
        } else {
            false
        }
    }
    std::thread_local! {
        static NO_YIELD: std::cell::Cell<u32> = std::cell::Cell::new(0);
    }
    pub fn install(p: PointFn, b: BlockedFn) {
        POINT.store(p as usize, Ordering::SeqCst);
        BLOCKED.store(b as usize, Ordering::SeqCst);
    }
    #[inline]
    pub fn point(kind: &'static str) {
        let f = POINT.load(Ordering::Relaxed);
        if f != 0 && NO_YIELD.with(|c| c.get()) == 0 {
            let f: PointFn = unsafe { std::mem::transmute(f) };
            f(kind)
        }
    }
    #[inline]
    pub fn blocked(kind: &'static str) -> bool {
        let f = BLOCKED.load(Ordering::Relaxed);
        if f != 0 && NO_YIELD.with(|c| c.get()) == 0 {
            let f: BlockedFn = unsafe { std::mem::transmute(f) };
            f(kind)
        } else {
            false
        }
    }
    /// While one of these lives, this thread announces no scheduling points (it is inside a
    /// one-time initialiser on which the other caller may really block).
    pub struct NoYield(());
    impl NoYield {
        pub fn new() -> NoYield {
            NO_YIELD.with(|c| c.set(c.get() + 1));
            NoYield(())
        }
    }
    impl Drop for NoYield {
        fn drop(&mut self) {
            NO_YIELD.with(|c| c.set(c.get() - 1));
        }
    }
}

pub mod sync {
    pub use std::sync::*;
    use super::simhook::{blocked, contended, point, touched, NoYield};
    // (explicit `pub use`: a private import would shadow the glob re-export and hide the name)
    pub use std::sync::{LockResult, TryLockError, TryLockResult};

    // ---- Mutex ---------------------------------------------------------------------------------
    #[derive(Default)]
    pub struct Mutex<T: ?Sized> {
        inner: std::sync::Mutex<T>,
    }
    impl<T> Mutex<T> {
        pub const fn new(t: T) -> Mutex<T> {
            Mutex { inner: std::sync::Mutex::new(t) }
        }
        pub fn into_inner(self) -> LockResult<T> {
            self.inner.into_inner()
        }
    }
    impl<T: ?Sized> Mutex<T> {
        pub fn lock(&self) -> LockResult<std::sync::MutexGuard<'_, T>> {
            // one scheduling point per call; the retries after `blocked` are not points, so that
            // the simulator can tell "both callers keep failing" (deadlock) from progress
            point("mutex.lock");
            touched(self as *const _ as *const u8 as usize);
            loop {
                match self.inner.try_lock() {
                    Ok(g) => return Ok(g),
                    Err(TryLockError::Poisoned(e)) => return Err(e),
                    Err(TryLockError::WouldBlock) => {
                        if !blocked("mutex.lock") {
                            return self.inner.lock();
                        }
                    }
                }
            }
        }
        pub fn try_lock(&self) -> TryLockResult<std::sync::MutexGuard<'_, T>> {
            point("mutex.try_lock");
            let addr = self as *const _ as *const u8 as usize;
            let busy = contended(addr);
            touched(addr);
            if busy {
                // another simulated caller uses this lock too: this time it is "inside"
                return Err(TryLockError::WouldBlock);
            }
            self.inner.try_lock()
        }
    }
    impl<T: ?Sized> std::ops::Deref for Mutex<T> {
        type Target = std::sync::Mutex<T>;
        fn deref(&self) -> &Self::Target {
            &self.inner
        }
    }
    impl<T: ?Sized> std::ops::DerefMut for Mutex<T> {
        fn deref_mut(&mut self) -> &mut Self::Target {
            &mut self.inner
        }
    }
    impl<T> From<T> for Mutex<T> {
        fn from(t: T) -> Self {
            Mutex::new(t)
        }
    }
    impl<T: ?Sized + std::fmt::Debug> std::fmt::Debug for Mutex<T> {
        fn fmt(&self, f: &mut std::fmt::Formatter<'_>) -> std::fmt::Result {
            self.inner.fmt(f)
        }
    }

    // ---- RwLock --------------------------------------------------------------------------------
    /// std's RwLock (futex implementation) prefers writers: once a writer waits, new readers
    /// wait behind it - which is why taking `read()` again while already holding a read guard
    /// can deadlock ("this function might panic or deadlock when called if the lock is already
    /// held by the current thread"). The simulator never lets a caller wait inside the real lock,
    /// so that rule is modelled here: `writers_waiting` counts simulated callers whose `write()`
    /// found the lock taken; while it is non-zero a simulated `read()` counts as blocked.
    #[derive(Default)]
    pub struct RwLock<T: ?Sized> {
        writers_waiting: std::sync::atomic::AtomicUsize,
        inner: std::sync::RwLock<T>,
    }
    impl<T> RwLock<T> {
        pub const fn new(t: T) -> RwLock<T> {
            RwLock { writers_waiting: std::sync::atomic::AtomicUsize::new(0), inner: std::sync::RwLock::new(t) }
        }
        pub fn into_inner(self) -> LockResult<T> {
            self.inner.into_inner()
        }
    }
    impl<T: ?Sized> RwLock<T> {
        pub fn read(&self) -> LockResult<std::sync::RwLockReadGuard<'_, T>> {
            point("rwlock.read");
            touched(self as *const _ as *const u8 as usize);
            loop {
                if self.writers_waiting.load(std::sync::atomic::Ordering::SeqCst) > 0 {
                    // a writer is queued: a new reader waits behind it
                    if blocked("rwlock.read") {
                        continue;
                    }
                }
                match self.inner.try_read() {
                    Ok(g) => return Ok(g),
                    Err(TryLockError::Poisoned(e)) => return Err(e),
                    Err(TryLockError::WouldBlock) => {
                        if !blocked("rwlock.read") {
                            return self.inner.read();
                        }
                    }
                }
            }
        }
        pub fn write(&self) -> LockResult<std::sync::RwLockWriteGuard<'_, T>> {
            let mut queued = false;
            let unqueue = |q: bool| {
                if q {
                    self.writers_waiting.fetch_sub(1, std::sync::atomic::Ordering::SeqCst);
                }
            };
            point("rwlock.write");
            touched(self as *const _ as *const u8 as usize);
            loop {
                match self.inner.try_write() {
                    Ok(g) => {
                        unqueue(queued);
                        return Ok(g);
                    }
                    Err(TryLockError::Poisoned(e)) => {
                        unqueue(queued);
                        return Err(e);
                    }
                    Err(TryLockError::WouldBlock) => {
                        if !queued {
                            queued = true;
                            self.writers_waiting.fetch_add(1, std::sync::atomic::Ordering::SeqCst);
                        }
                        // (a deadlock ends in a panic raised inside `blocked`: the count is then
                        // left raised, as a really queued writer would stay queued)
                        if !blocked("rwlock.write") {
                            unqueue(queued);
                            return self.inner.write();
                        }
                    }
                }
            }
        }
        pub fn try_read(&self) -> TryLockResult<std::sync::RwLockReadGuard<'_, T>> {
            point("rwlock.try_read");
            let addr = self as *const _ as *const u8 as usize;
            let busy = contended(addr);
            touched(addr);
            if busy {
                return Err(TryLockError::WouldBlock);
            }
            self.inner.try_read()
        }
        pub fn try_write(&self) -> TryLockResult<std::sync::RwLockWriteGuard<'_, T>> {
            point("rwlock.try_write");
            let addr = self as *const _ as *const u8 as usize;
            let busy = contended(addr);
            touched(addr);
            if busy {
                return Err(TryLockError::WouldBlock);
            }
            self.inner.try_write()
        }
    }
    impl<T: ?Sized> std::ops::Deref for RwLock<T> {
        type Target = std::sync::RwLock<T>;
        fn deref(&self) -> &Self::Target {
            &self.inner
        }
    }
    impl<T: ?Sized> std::ops::DerefMut for RwLock<T> {
        fn deref_mut(&mut self) -> &mut Self::Target {
            &mut self.inner
        }
    }
    impl<T> From<T> for RwLock<T> {
        fn from(t: T) -> Self {
            RwLock::new(t)
        }
    }
    impl<T: ?Sized + std::fmt::Debug> std::fmt::Debug for RwLock<T> {
        fn fmt(&self, f: &mut std::fmt::Formatter<'_>) -> std::fmt::Result {
            self.inner.fmt(f)
        }
    }

    // ---- one-time initialisation: a point before, none inside -----------------------------------
    pub struct Once {
        inner: std::sync::Once,
    }
    impl Once {
        pub const fn new() -> Once {
            Once { inner: std::sync::Once::new() }
        }
        pub fn call_once<F: FnOnce()>(&self, f: F) {
            point("once.call_once");
            let _g = NoYield::new();
            self.inner.call_once(f)
        }
        pub fn call_once_force<F: FnOnce(&std::sync::OnceState)>(&self, f: F) {
            point("once.call_once_force");
            let _g = NoYield::new();
            self.inner.call_once_force(f)
        }
    }
    impl std::ops::Deref for Once {
        type Target = std::sync::Once;
        fn deref(&self) -> &Self::Target {
            &self.inner
        }
    }

    pub struct OnceLock<T> {
        inner: std::sync::OnceLock<T>,
    }
    impl<T> OnceLock<T> {
        pub const fn new() -> OnceLock<T> {
            OnceLock { inner: std::sync::OnceLock::new() }
        }
        pub fn get(&self) -> Option<&T> {
            point("oncelock.get");
            self.inner.get()
        }
        pub fn set(&self, value: T) -> Result<(), T> {
            point("oncelock.set");
            let _g = NoYield::new();
            self.inner.set(value)
        }
        pub fn get_or_init<F: FnOnce() -> T>(&self, f: F) -> &T {
            point("oncelock.get_or_init");
            let _g = NoYield::new();
            self.inner.get_or_init(f)
        }
        pub fn into_inner(self) -> Option<T> {
            self.inner.into_inner()
        }
    }
    impl<T> Default for OnceLock<T> {
        fn default() -> Self {
            OnceLock::new()
        }
    }
    impl<T> std::ops::Deref for OnceLock<T> {
        type Target = std::sync::OnceLock<T>;
        fn deref(&self) -> &Self::Target {
            &self.inner
        }
    }
    impl<T> std::ops::DerefMut for OnceLock<T> {
        fn deref_mut(&mut self) -> &mut Self::Target {
            &mut self.inner
        }
    }
    impl<T: std::fmt::Debug> std::fmt::Debug for OnceLock<T> {
        fn fmt(&self, f: &mut std::fmt::Formatter<'_>) -> std::fmt::Result {
            self.inner.fmt(f)
        }
    }
    impl<T> From<T> for OnceLock<T> {
        fn from(t: T) -> Self {
            OnceLock { inner: std::sync::OnceLock::from(t) }
        }
    }

    pub struct LazyLock<T, F = fn() -> T> {
        inner: std::sync::LazyLock<T, F>,
    }
    impl<T, F: FnOnce() -> T> LazyLock<T, F> {
        pub const fn new(f: F) -> LazyLock<T, F> {
            LazyLock { inner: std::sync::LazyLock::new(f) }
        }
        pub fn force(this: &LazyLock<T, F>) -> &T {
            point("lazylock.force");
            let _g = NoYield::new();
            std::sync::LazyLock::force(&this.inner)
        }
    }
    impl<T, F: FnOnce() -> T> std::ops::Deref for LazyLock<T, F> {
        type Target = T;
        fn deref(&self) -> &T {
            LazyLock::force(self)
        }
    }
    impl<T: std::fmt::Debug, F> std::fmt::Debug for LazyLock<T, F> {
        fn fmt(&self, f: &mut std::fmt::Formatter<'_>) -> std::fmt::Result {
            self.inner.fmt(f)
        }
    }

    // ---- atomics -------------------------------------------------------------------------------
    pub mod atomic {
        pub use std::sync::atomic::*;
        use super::super::simhook::point;
        pub use std::sync::atomic::Ordering;

        macro_rules! atomic_int {
            ($name:ident, $t:ty) => {
                #[derive(Default)]
                #[repr(transparent)]
                pub struct $name(std::sync::atomic::$name);
                impl $name {
                    pub const fn new(v: $t) -> Self {
                        Self(std::sync::atomic::$name::new(v))
                    }
                    pub fn into_inner(self) -> $t {
                        self.0.into_inner()
                    }
                    pub fn load(&self, o: Ordering) -> $t {
                        point("atomic.load");
                        self.0.load(o)
                    }
                    pub fn store(&self, v: $t, o: Ordering) {
                        point("atomic.store");
                        self.0.store(v, o)
                    }
                    pub fn swap(&self, v: $t, o: Ordering) -> $t {
                        point("atomic.rmw");
                        self.0.swap(v, o)
                    }
                    pub fn compare_exchange(&self, c: $t, n: $t, s: Ordering, f: Ordering) -> Result<$t, $t> {
                        point("atomic.rmw");
                        self.0.compare_exchange(c, n, s, f)
                    }
                    pub fn compare_exchange_weak(&self, c: $t, n: $t, s: Ordering, f: Ordering) -> Result<$t, $t> {
                        point("atomic.rmw");
                        self.0.compare_exchange_weak(c, n, s, f)
                    }
                    pub fn fetch_add(&self, v: $t, o: Ordering) -> $t {
                        point("atomic.rmw");
                        self.0.fetch_add(v, o)
                    }
                    pub fn fetch_sub(&self, v: $t, o: Ordering) -> $t {
                        point("atomic.rmw");
                        self.0.fetch_sub(v, o)
                    }
                    pub fn fetch_and(&self, v: $t, o: Ordering) -> $t {
                        point("atomic.rmw");
                        self.0.fetch_and(v, o)
                    }
                    pub fn fetch_or(&self, v: $t, o: Ordering) -> $t {
                        point("atomic.rmw");
                        self.0.fetch_or(v, o)
                    }
                    pub fn fetch_xor(&self, v: $t, o: Ordering) -> $t {
                        point("atomic.rmw");
                        self.0.fetch_xor(v, o)
                    }
                    pub fn fetch_max(&self, v: $t, o: Ordering) -> $t {
                        point("atomic.rmw");
                        self.0.fetch_max(v, o)
                    }
                    pub fn fetch_min(&self, v: $t, o: Ordering) -> $t {
                        point("atomic.rmw");
                        self.0.fetch_min(v, o)
                    }
                    pub fn fetch_update<F: FnMut($t) -> Option<$t>>(&self, s: Ordering, f: Ordering, g: F) -> Result<$t, $t> {
                        point("atomic.rmw");
                        self.0.fetch_update(s, f, g)
                    }
                }
                impl std::ops::Deref for $name {
                    type Target = std::sync::atomic::$name;
                    fn deref(&self) -> &Self::Target {
                        &self.0
                    }
                }
                impl std::ops::DerefMut for $name {
                    fn deref_mut(&mut self) -> &mut Self::Target {
                        &mut self.0
                    }
                }
                impl From<$t> for $name {
                    fn from(v: $t) -> Self {
                        Self::new(v)
                    }
                }
                impl std::fmt::Debug for $name {
                    fn fmt(&self, f: &mut std::fmt::Formatter<'_>) -> std::fmt::Result {
                        self.0.fmt(f)
                    }
                }
            };
        }
        atomic_int!(AtomicU8, u8);
        atomic_int!(AtomicU16, u16);
        atomic_int!(AtomicU32, u32);
        atomic_int!(AtomicU64, u64);
        atomic_int!(AtomicUsize, usize);
        atomic_int!(AtomicI8, i8);
        atomic_int!(AtomicI16, i16);
        atomic_int!(AtomicI32, i32);
        atomic_int!(AtomicI64, i64);
        atomic_int!(AtomicIsize, isize);

        #[derive(Default)]
        #[repr(transparent)]
        pub struct AtomicBool(std::sync::atomic::AtomicBool);
        impl AtomicBool {
            pub const fn new(v: bool) -> Self {
                Self(std::sync::atomic::AtomicBool::new(v))
            }
            pub fn into_inner(self) -> bool {
                self.0.into_inner()
            }
            pub fn load(&self, o: Ordering) -> bool {
                point("atomic.load");
                self.0.load(o)
            }
            pub fn store(&self, v: bool, o: Ordering) {
                point("atomic.store");
                self.0.store(v, o)
            }
            pub fn swap(&self, v: bool, o: Ordering) -> bool {
                point("atomic.rmw");
                self.0.swap(v, o)
            }
            pub fn compare_exchange(&self, c: bool, n: bool, s: Ordering, f: Ordering) -> Result<bool, bool> {
                point("atomic.rmw");
                self.0.compare_exchange(c, n, s, f)
            }
            pub fn compare_exchange_weak(&self, c: bool, n: bool, s: Ordering, f: Ordering) -> Result<bool, bool> {
                point("atomic.rmw");
                self.0.compare_exchange_weak(c, n, s, f)
            }
            pub fn fetch_and(&self, v: bool, o: Ordering) -> bool {
                point("atomic.rmw");
                self.0.fetch_and(v, o)
            }
            pub fn fetch_or(&self, v: bool, o: Ordering) -> bool {
                point("atomic.rmw");
                self.0.fetch_or(v, o)
            }
            pub fn fetch_xor(&self, v: bool, o: Ordering) -> bool {
                point("atomic.rmw");
                self.0.fetch_xor(v, o)
            }
            pub fn fetch_nand(&self, v: bool, o: Ordering) -> bool {
                point("atomic.rmw");
                self.0.fetch_nand(v, o)
            }
            pub fn fetch_update<F: FnMut(bool) -> Option<bool>>(&self, s: Ordering, f: Ordering, g: F) -> Result<bool, bool> {
                point("atomic.rmw");
                self.0.fetch_update(s, f, g)
            }
        }
        impl std::ops::Deref for AtomicBool {
            type Target = std::sync::atomic::AtomicBool;
            fn deref(&self) -> &Self::Target {
                &self.0
            }
        }
        impl From<bool> for AtomicBool {
            fn from(v: bool) -> Self {
                Self::new(v)
            }
        }
        impl std::fmt::Debug for AtomicBool {
            fn fmt(&self, f: &mut std::fmt::Formatter<'_>) -> std::fmt::Result {
                self.0.fmt(f)
            }
        }

        #[repr(transparent)]
        pub struct AtomicPtr<T>(std::sync::atomic::AtomicPtr<T>);
        impl<T> AtomicPtr<T> {
            pub const fn new(p: *mut T) -> Self {
                Self(std::sync::atomic::AtomicPtr::new(p))
            }
            pub fn into_inner(self) -> *mut T {
                self.0.into_inner()
            }
            pub fn load(&self, o: Ordering) -> *mut T {
                point("atomic.load");
                self.0.load(o)
            }
            pub fn store(&self, p: *mut T, o: Ordering) {
                point("atomic.store");
                self.0.store(p, o)
            }
            pub fn swap(&self, p: *mut T, o: Ordering) -> *mut T {
                point("atomic.rmw");
                self.0.swap(p, o)
            }
            pub fn compare_exchange(&self, c: *mut T, n: *mut T, s: Ordering, f: Ordering) -> Result<*mut T, *mut T> {
                point("atomic.rmw");
                self.0.compare_exchange(c, n, s, f)
            }
            pub fn compare_exchange_weak(&self, c: *mut T, n: *mut T, s: Ordering, f: Ordering) -> Result<*mut T, *mut T> {
                point("atomic.rmw");
                self.0.compare_exchange_weak(c, n, s, f)
            }
        }
        impl<T> Default for AtomicPtr<T> {
            fn default() -> Self {
                Self::new(std::ptr::null_mut())
            }
        }
        impl<T> std::ops::Deref for AtomicPtr<T> {
            type Target = std::sync::atomic::AtomicPtr<T>;
            fn deref(&self) -> &Self::Target {
                &self.0
            }
        }
        impl<T> std::fmt::Debug for AtomicPtr<T> {
            fn fmt(&self, f: &mut std::fmt::Formatter<'_>) -> std::fmt::Result {
                self.0.fmt(f)
            }
        }
    }
}
