//! Development-time only: write library-made artefacts to a directory so that an external
//! implementation (OpenSSL on the development box) can be asked to read them. Not used by any check.

use crate::refmodel::der;
use gm_sm2::key::{Sm2Model, Sm2PrivateKey};
use pkcs8::{EncodePrivateKey, EncodePublicKey, LineEnding};
use std::path::Path;

pub fn dump(dir: &Path) {
    std::fs::create_dir_all(dir).unwrap();
    for i in 0..4 {
        let (pk, sk) = gm_sm2::key::gen_keypair().unwrap();
        let sk = Sm2PrivateKey::new(&sk.to_bytes_be()).unwrap();
        let f = |n: &str| dir.join(format!("lib{i}.{n}"));
        std::fs::write(f("pkcs8.pem"), sk.to_pkcs8_pem(LineEnding::LF).unwrap().as_bytes()).unwrap();
        std::fs::write(f("spki.pem"), pk.to_public_key_pem(LineEnding::LF).unwrap()).unwrap();
        std::fs::write(f("sec1.der"), sk.to_sec1_der().unwrap().to_vec()).unwrap();
        let msg = format!("library-made message {i} for an independent implementation").into_bytes();
        std::fs::write(f("msg.bin"), &msg).unwrap();
        // signature under the default ID and under an explicit ID, DER-encoded for the CLI
        for (name, id) in [("sig.der", None), ("sigid.der", Some("Alice@example"))] {
            let sig = sk.sign(id, &msg).unwrap();
            let r = num_bigint::BigUint::from_bytes_be(&sig[..32]);
            let s = num_bigint::BigUint::from_bytes_be(&sig[32..]);
            let mut body = der::der_uint(&r);
            body.extend_from_slice(&der::der_uint(&s));
            std::fs::write(f(name), der::tlv(0x30, &body)).unwrap();
        }
        let ct = pk.encrypt_asn1(&msg, false, Sm2Model::C1C3C2).unwrap();
        std::fs::write(f("ct.der"), ct).unwrap();
    }
}

/// Development-time: identity pairs colliding under a truncated std `DefaultHasher` (SipHash-1-3
/// with the fixed zero key of `DefaultHasher::new()`), printed as JSON for tools/mk_collisions.py.
pub fn siphash_collisions() {
    use std::collections::hash_map::DefaultHasher;
    use std::collections::HashMap;
    use std::hash::{Hash, Hasher};
    let word = |n: u64| -> String {
        let al = b"abcdefghijklmnopqrstuvwxyz";
        let mut x = n;
        let mut s = String::new();
        for _ in 0..6 {
            s.push(al[(x % 26) as usize] as char);
            x /= 26;
        }
        if n % 2 == 1 { format!("{s}@example.org") } else { format!("{s}{x}") }
    };
    let fams: Vec<(&str, Box<dyn Fn(&str) -> u32>)> = vec![
        ("siphash13_slice_low32", Box::new(|s: &str| { let mut h = DefaultHasher::new(); s.as_bytes().hash(&mut h); h.finish() as u32 })),
        ("siphash13_slice_high32", Box::new(|s: &str| { let mut h = DefaultHasher::new(); s.as_bytes().hash(&mut h); (h.finish() >> 32) as u32 })),
        ("siphash13_write_low32", Box::new(|s: &str| { let mut h = DefaultHasher::new(); h.write(s.as_bytes()); h.finish() as u32 })),
        ("siphash13_str_low32", Box::new(|s: &str| { let mut h = DefaultHasher::new(); s.hash(&mut h); h.finish() as u32 })),
        ("siphash13_vec_fold32", Box::new(|s: &str| { let mut h = DefaultHasher::new(); s.as_bytes().to_vec().hash(&mut h); let v = h.finish(); (v ^ (v >> 32)) as u32 })),
    ];
    let mut out = serde_json::Map::new();
    for (name, f) in fams {
        let mut seen: HashMap<u32, String> = HashMap::new();
        let mut pairs = vec![];
        for n in 0..3_000_000u64 {
            let w = word(n);
            let h = f(&w);
            if let Some(prev) = seen.get(&h) {
                if *prev != w {
                    pairs.push(serde_json::json!([prev, w]));
                    if pairs.len() >= 2 {
                        break;
                    }
                }
            }
            seen.insert(h, w);
        }
        out.insert(name.to_string(), serde_json::Value::Array(pairs));
    }
    println!("{}", serde_json::Value::Object(out));
}
