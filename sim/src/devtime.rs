//! Development-time only: write library-made artefacts to a directory so that an external
//! implementation (OpenSSL on the development box) can be asked to read them. Not used by any check.

use crate::refmodel::der;
use gm_sm2::key::{Sm2Model, Sm2PrivateKey};
use pkcs8::{EncodePrivateKey, EncodePublicKey, LineEnding};
use std::path::Path;

pub fn dump(dir: &Path) {
    std::fs::create_dir_all(dir).unwrap();
    for i in 0..4 {
        let (pk, sk) = gm_sm2::key::gen_keypair().unwrap();
        let sk = Sm2PrivateKey::new(&sk.to_bytes_be()).unwrap();
        let f = |n: &str| dir.join(format!("lib{i}.{n}"));
        std::fs::write(f("pkcs8.pem"), sk.to_pkcs8_pem(LineEnding::LF).unwrap().as_bytes()).unwrap();
        std::fs::write(f("spki.pem"), pk.to_public_key_pem(LineEnding::LF).unwrap()).unwrap();
        std::fs::write(f("sec1.der"), sk.to_sec1_der().unwrap().to_vec()).unwrap();
        let msg = format!("library-made message {i} for an independent implementation").into_bytes();
        std::fs::write(f("msg.bin"), &msg).unwrap();
        // signature under the default ID and under an explicit ID, DER-encoded for the CLI
        for (name, id) in [("sig.der", None), ("sigid.der", Some("Alice@example"))] {
            let sig = sk.sign(id, &msg).unwrap();
            let r = num_bigint::BigUint::from_bytes_be(&sig[..32]);
            let s = num_bigint::BigUint::from_bytes_be(&sig[32..]);
            let mut body = der::der_uint(&r);
            body.extend_from_slice(&der::der_uint(&s));
            std::fs::write(f(name), der::tlv(0x30, &body)).unwrap();
        }
        let ct = pk.encrypt_asn1(&msg, false, Sm2Model::C1C3C2).unwrap();
        std::fs::write(f("ct.der"), ct).unwrap();
    }
}
