//! Development-time search for the rare-event table (ephemeral scalars whose point has
//! coordinates with leading / trailing zero bytes or particular top bits). The search uses the
//! library's fast fixed-base multiplication; every hit is re-checked with the reference before
//! it is printed. The checks only read the committed table.

use crate::libglue as glue;
use crate::refmodel::sm2 as rsm2;
use num_bigint::BigUint;
use rayon::prelude::*;
use serde_json::json;
use std::collections::BTreeMap;
use std::sync::Mutex;

fn classes(x: &[u8], y: &[u8]) -> Vec<&'static str> {
    let mut v = vec![];
    let lead = |b: &[u8]| b.iter().take_while(|c| **c == 0).count();
    let trail = |b: &[u8]| b.iter().rev().take_while(|c| **c == 0).count();
    match lead(x) {
        1 => v.push("x-lead-1"),
        2 => v.push("x-lead-2"),
        n if n >= 3 => v.push("x-lead-3"),
        _ => {}
    }
    match lead(y) {
        1 => v.push("y-lead-1"),
        2 => v.push("y-lead-2"),
        n if n >= 3 => v.push("y-lead-3"),
        _ => {}
    }
    match trail(x) {
        1 => v.push("x-trail-1"),
        n if n >= 2 => v.push("x-trail-2"),
        _ => {}
    }
    match trail(y) {
        1 => v.push("y-trail-1"),
        n if n >= 2 => v.push("y-trail-2"),
        _ => {}
    }
    if lead(x) >= 1 && lead(y) >= 1 {
        v.push("x-and-y-lead-1");
    }
    if lead(x) == 0 && lead(y) == 0 {
        match (x[0] & 0x80 != 0, y[0] & 0x80 != 0) {
            (true, true) => v.push("top-bits-11"),
            (true, false) => v.push("top-bits-10"),
            (false, true) => v.push("top-bits-01"),
            (false, false) => v.push("top-bits-00"),
        }
    }
    if lead(x) == 1 && x[1] & 0x80 != 0 {
        v.push("x-lead-1-then-high-bit");
    }
    if lead(y) == 1 && y[1] & 0x80 != 0 {
        v.push("y-lead-1-then-high-bit");
    }
    v
}

pub fn main(tries_log2: u32) {
    let base = rsm2::hx("5A0F3C9912D4E6B7A1C2D3E4F5061728394A5B6C7D8E9FA0B1C2D3E4F5061728");
    let found: Mutex<BTreeMap<&'static str, BigUint>> = Mutex::new(BTreeMap::new());
    let total: u64 = 1 << tries_log2;
    (0..total).into_par_iter().for_each(|i| {
        let k = &base + BigUint::from(i);
        let pt = gm_sm2::p256_ecc::g_mul(&glue::big_to_limbs(&k));
        let b = pt.to_byte_be(false);
        let cl = classes(&b[1..33], &b[33..65]);
        if cl.iter().any(|c| c.contains("lead") || c.contains("trail")) || i < 64 {
            let mut g = found.lock().unwrap();
            for c in cl {
                g.entry(c).or_insert_with(|| k.clone());
            }
        }
    });
    let g = found.lock().unwrap();
    let mut out = vec![];
    for (c, k) in g.iter() {
        // re-check with the reference
        let pt = rsm2::with_curve(|cv| cv.mul_g(k)).unwrap();
        let (x, y) = (rsm2::be32(&pt.0), rsm2::be32(&pt.1));
        assert!(classes(&x, &y).contains(c), "reference disagrees on class {c}");
        out.push(json!({"class": c, "k": hex::encode(rsm2::be32(k)), "x": hex::encode(x), "y": hex::encode(y)}));
    }
    println!("{}", serde_json::to_string_pretty(&out).unwrap());
}
