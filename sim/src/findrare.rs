//! Development-time search for the rare-event table (ephemeral scalars whose point has
//! coordinates with leading / trailing zero bytes or particular top bits). The search uses the
//! library's fast fixed-base multiplication; every hit is re-checked with the reference before
//! it is printed. The checks only read the committed table.

use crate::libglue as glue;
use crate::refmodel::sm2 as rsm2;
use num_bigint::BigUint;
use rayon::prelude::*;
use serde_json::json;
use std::collections::BTreeMap;
use std::sync::Mutex;

fn classes(x: &[u8], y: &[u8]) -> Vec<&'static str> {
    let mut v = vec![];
    let lead = |b: &[u8]| b.iter().take_while(|c| **c == 0).count();
    let trail = |b: &[u8]| b.iter().rev().take_while(|c| **c == 0).count();
    match lead(x) {
        1 => v.push("x-lead-1"),
        2 => v.push("x-lead-2"),
        n if n >= 3 => v.push("x-lead-3"),
        _ => {}
    }
    match lead(y) {
        1 => v.push("y-lead-1"),
        2 => v.push("y-lead-2"),
        n if n >= 3 => v.push("y-lead-3"),
        _ => {}
    }
    match trail(x) {
        1 => v.push("x-trail-1"),
        n if n >= 2 => v.push("x-trail-2"),
        _ => {}
    }
    match trail(y) {
        1 => v.push("y-trail-1"),
        n if n >= 2 => v.push("y-trail-2"),
        _ => {}
    }
    if lead(x) >= 1 && lead(y) >= 1 {
        v.push("x-and-y-lead-1");
    }
    if lead(x) == 0 && lead(y) == 0 {
        match (x[0] & 0x80 != 0, y[0] & 0x80 != 0) {
            (true, true) => v.push("top-bits-11"),
            (true, false) => v.push("top-bits-10"),
            (false, true) => v.push("top-bits-01"),
            (false, false) => v.push("top-bits-00"),
        }
    }
    if lead(x) == 1 && x[1] & 0x80 != 0 {
        v.push("x-lead-1-then-high-bit");
    }
    if lead(y) == 1 && y[1] & 0x80 != 0 {
        v.push("y-lead-1-then-high-bit");
    }
    v
}

pub fn main(tries_log2: u32) {
    let base = rsm2::hx("5A0F3C9912D4E6B7A1C2D3E4F5061728394A5B6C7D8E9FA0B1C2D3E4F5061728");
    let found: Mutex<BTreeMap<&'static str, BigUint>> = Mutex::new(BTreeMap::new());
    let total: u64 = 1 << tries_log2;
    (0..total).into_par_iter().for_each(|i| {
        let k = &base + BigUint::from(i);
        let pt = gm_sm2::p256_ecc::g_mul(&glue::big_to_limbs(&k));
        let b = pt.to_byte_be(false);
        let cl = classes(&b[1..33], &b[33..65]);
        if cl.iter().any(|c| c.contains("lead") || c.contains("trail")) || i < 64 {
            let mut g = found.lock().unwrap();
            for c in cl {
                g.entry(c).or_insert_with(|| k.clone());
            }
        }
    });
    let g = found.lock().unwrap();
    let mut out = vec![];
    for (c, k) in g.iter() {
        // re-check with the reference
        let pt = rsm2::with_curve(|cv| cv.mul_g(k)).unwrap();
        let (x, y) = (rsm2::be32(&pt.0), rsm2::be32(&pt.1));
        assert!(classes(&x, &y).contains(c), "reference disagrees on class {c}");
        out.push(json!({"class": c, "k": hex::encode(rsm2::be32(k)), "x": hex::encode(x), "y": hex::encode(y)}));
    }
    println!("{}", serde_json::to_string_pretty(&out).unwrap());
}

// ---------------------------------------------------------------------------------------------
// Rare message digests (development time): for a fixed key and nonce, messages M whose digest
// e = SM3(ZA || M) falls into a window of relative size 2^-32 that decides a carry or a range:
//   "e-plus-x1-wraps": e + x1 lies in [n, 2^256)  (the reduction r = (e + x1) mod n subtracts n
//                      although no 2^256 carry occurred: a 2^-32 corner of the modular addition);
//   "s-below-2^224":   the signature has s < 2^256 - n, so that s + n still fits 32 bytes and the
//                      tampered (r, s + n) can be delivered at all (only the range check on s
//                      refuses it: [s + n]G = [s]G and t is taken mod n).
// With d = 1 the second condition is a window on r: s = (k - r)/2 mod n. About 2^32 one-block
// SM3 computations per hit; a few minutes on 16 cores. Every hit is re-checked with the reference
// signer before it is printed.
pub fn rare_e(want_each: usize) {
    use crate::refmodel::sm3::Sm3;
    use std::sync::atomic::{AtomicBool, AtomicUsize, Ordering};
    let (n, x1, k, za) = rsm2::with_curve(|c| {
        let d = BigUint::from(1u32);
        let pk = c.mul_g(&d);
        let k = rsm2::hx("6CB28D99385C175C94F94E934817663FC176D925DD72B727260DBAAE1FB2F96F");
        let x1 = c.mul_g(&k).unwrap().0;
        let za = rsm2::za(c, b"1234567812345678", &pk).unwrap();
        (c.n.clone(), x1, k, za)
    });
    let limbs = |v: &BigUint| -> [u64; 4] {
        let b = rsm2::be32(v);
        let mut o = [0u64; 4];
        for i in 0..4 {
            o[i] = u64::from_be_bytes(b[8 * i..8 * i + 8].try_into().unwrap());
        }
        o // big-endian limb order: o[0] is the most significant
    };
    let (nl, xl, kl) = (limbs(&n), limbs(&x1), limbs(&k));
    let add = |a: &[u64; 4], b: &[u64; 4]| -> ([u64; 4], bool) {
        let mut o = [0u64; 4];
        let mut c = false;
        for i in (0..4).rev() {
            let (s1, c1) = a[i].overflowing_add(b[i]);
            let (s2, c2) = s1.overflowing_add(c as u64);
            o[i] = s2;
            c = c1 || c2;
        }
        (o, c)
    };
    let sub = |a: &[u64; 4], b: &[u64; 4]| -> ([u64; 4], bool) {
        let mut o = [0u64; 4];
        let mut br = false;
        for i in (0..4).rev() {
            let (s1, b1) = a[i].overflowing_sub(b[i]);
            let (s2, b2) = s1.overflowing_sub(br as u64);
            o[i] = s2;
            br = b1 || b2;
        }
        (o, br)
    };
    let ge = |a: &[u64; 4], b: &[u64; 4]| a >= b;
    let mut base = Sm3::new();
    base.update(&za);
    let found_a = AtomicUsize::new(0);
    let found_b = AtomicUsize::new(0);
    let stop = AtomicBool::new(false);
    let out = Mutex::new(Vec::<serde_json::Value>::new());
    let chunk = 1u64 << 24;
    (0..4096u64).into_par_iter().for_each(|ci| {
        if stop.load(Ordering::Relaxed) {
            return;
        }
        for ctr in ci * chunk..(ci + 1) * chunk {
            let mut h = base.clone();
            let msg = ctr.to_be_bytes();
            h.update(&msg);
            let e = h.finish();
            let mut el = [0u64; 4];
            for i in 0..4 {
                el[i] = u64::from_be_bytes(e[8 * i..8 * i + 8].try_into().unwrap());
            }
            let (sum, carry) = add(&el, &xl);
            let class_a = !carry && ge(&sum, &nl);
            // r = (e + x1) mod n  (e < 2^256, x1 < n: at most two subtractions)
            let mut r = sum;
            let mut cy = carry;
            for _ in 0..2 {
                if cy || ge(&r, &nl) {
                    let (t, b) = sub(&r, &nl);
                    r = t;
                    if b {
                        cy = false;
                    }
                }
            }
            // (k - r) mod n
            let (mut dkr, br) = sub(&kl, &r);
            if br {
                dkr = add(&dkr, &nl).0;
            }
            let class_b = dkr[0] < (1u64 << 33) && dkr[3] & 1 == 0;
            if !(class_a || class_b) {
                continue;
            }
            // re-check with the reference signer
            let sig = rsm2::with_curve(|c| rsm2::sign_with_k(c, &BigUint::from(1u32), b"1234567812345678", &msg, &k));
            let sig = match sig {
                Some(s) => s,
                None => continue,
            };
            let s = BigUint::from_bytes_be(&sig[32..]);
            let two256 = BigUint::from(1u32) << 256u32;
            let e_big = BigUint::from_bytes_be(&e);
            let wraps = &e_big + &x1 >= n && &e_big + &x1 < two256;
            let small_s = &s + &n < two256;
            let mut cls = vec![];
            if wraps && found_a.load(Ordering::Relaxed) < want_each {
                found_a.fetch_add(1, Ordering::Relaxed);
                cls.push("e-plus-x1-wraps");
            }
            if small_s && found_b.load(Ordering::Relaxed) < want_each {
                found_b.fetch_add(1, Ordering::Relaxed);
                cls.push("s-below-2^224");
            }
            for c in cls {
                let j = json!({"class": c, "d": "0000000000000000000000000000000000000000000000000000000000000001", "k": hex::encode(rsm2::be32(&k)), "id": "1234567812345678", "msg": hex::encode(msg), "sig": hex::encode(sig)});
                println!("{j}");
                out.lock().unwrap().push(j);
            }
            if found_a.load(Ordering::Relaxed) >= want_each && found_b.load(Ordering::Relaxed) >= want_each {
                stop.store(true, Ordering::Relaxed);
                return;
            }
        }
    });
    eprintln!("found {} + {}", found_a.load(Ordering::Relaxed), found_b.load(Ordering::Relaxed));
}
