//! Scheduler for C14: every randomised call site of both crates under (M1) scripted uniform
//! candidates, (fault enumeration) each out-of-range / edge candidate of the RNG fault menu at
//! each site, (M2) the draw budget, and (M3) the observed real generator incl. process restarts.

use crate::gen_common::*;
use crate::prng::Prng;
use crate::refmodel::sm9 as rsm9;
use crate::runner::{Sink, Tier};
use crate::simrng::RngScript;
use crate::world::World;
use num_bigint::BigUint;
use serde_json::{json, Value};

pub const SITES: [&str; 11] = [
    "sm2.keygen", "sm2.sign", "sm2.encrypt", "sm2.kex1", "sm2.kex2", "sm9.master.sign", "sm9.master.enc", "sm9.sign", "sm9.encrypt",
    "sm9.kex1a", "sm9.kex1b",
];

fn is_sm2(site: &str) -> bool {
    site.starts_with("sm2.")
}

fn order_of(site: &str) -> BigUint {
    if is_sm2(site) {
        n_sm2()
    } else {
        rsm9::with(|s| s.n.clone())
    }
}

fn good_candidate(p: &mut Prng, site: &str) -> [u8; 32] {
    let n = order_of(site);
    // [2, order-3] with a non-zero low limb: usable at every site of both crates
    loop {
        let v = (BigUint::from_bytes_be(&p.bytes32()) % (&n - 4u32)) + 2u32;
        let b = be32(&v);
        if b[24..] != [0u8; 8] {
            return b;
        }
    }
}

/// Set up whatever the site needs and make the one randomised library call with `script`.
pub fn site_call(p: &mut Prng, w: &mut World, pfx: &str, site: &str, script: Value) {
    site_call_mode(p, w, pfx, site, script, 0)
}

/// A world that ignores ops (used to run only the set-up half or only the call half of a site).
struct Gate<'a> {
    w: &'a mut World,
    open: bool,
}
impl Gate<'_> {
    fn exec(&mut self, op: Value) {
        if self.open {
            self.w.exec(op);
        }
    }
    fn has(&self, slot: &str) -> bool {
        self.w.slots.contains_key(slot)
    }
}

/// mode 0: set-up and call; 1: set-up only; 2: the randomised call only (set-up already done)
pub fn site_call_mode(p: &mut Prng, world: &mut World, pfx: &str, site: &str, script: Value, mode: u8) {
    let s = |x: &str| format!("{pfx}.{x}");
    // set-up ops go through `w`, the randomised call through `c`
    let setup_open = mode != 2;
    let call_open = mode != 1;
    let mut g = Gate { w: world, open: setup_open };
    let w = &mut g;
    macro_rules! call {
        ($w:expr, $op:expr) => {{
            $w.open = call_open;
            $w.exec($op);
            $w.open = setup_open;
        }};
    }
    match site {
        "sm2.keygen" => {
            call!(w, json!({"op":"sm2.keygen","impl":"lib","d":s("d"),"pk":s("pk"),"rng":script}));
        }
        "sm2.sign" => {
            let (d, _) = scalar_class(p, &n_sm2());
            w.exec(set(&s("d"), &be32(&d)));
            let len = p.range(0, 40);
            w.exec(set(&s("msg"), &p.bytes(len)));
            call!(w, json!({"op":"sm2.sign","impl":"lib","d":s("d"),"id":Value::Null,"msg":s("msg"),"sig":s("sig"),"rng":script}));
        }
        "sm2.encrypt" => {
            let (d, _) = scalar_class(p, &n_sm2());
            w.exec(set(&s("d"), &be32(&d)));
            w.exec(json!({"op":"sm2.derive_pk","impl":"ref","d":s("d"),"pk":s("pk"),"comp":false}));
            let len = p.range(2, 40);
            w.exec(set(&s("msg"), &p.bytes(len)));
            let order = if p.chance(1, 2) { "C1C2C3" } else { "C1C3C2" };
            let comp = p.chance(1, 2);
            call!(w, json!({"op":"sm2.encrypt","impl":"lib","pk":s("pk"),"msg":s("msg"),"ct":s("ct"),"order":order,"comp":comp,"rng":script}));
        }
        "sm2.kex1" | "sm2.kex2" => {
            let (da, _) = scalar_class(p, &n_sm2());
            let (db, _) = scalar_class(p, &n_sm2());
            w.exec(set(&s("a.d"), &be32(&da)));
            w.exec(set(&s("b.d"), &be32(&db)));
            w.exec(json!({"op":"sm2.derive_pk","impl":"ref","d":s("a.d"),"pk":s("a.pk"),"comp":false}));
            w.exec(json!({"op":"sm2.derive_pk","impl":"ref","d":s("b.d"),"pk":s("b.pk"),"comp":false}));
            let klen = p.range(1, 48);
            let a_impl = if site == "sm2.kex1" { "lib" } else { "ref" };
            w.exec(json!({"op":"sm2.kex.new","obj":s("A"),"impl":a_impl,"role":"A","klen":klen,"d":s("a.d"),"pk":s("a.pk"),"id":Value::Null,"peer_id":Value::Null,"peer_pk":s("b.pk")}));
            if site == "sm2.kex1" {
                call!(w, json!({"op":"sm2.kex.1","obj":s("A"),"out":s("ra"),"rng":script}));
            } else {
                w.exec(json!({"op":"sm2.kex.new","obj":s("B"),"impl":"lib","role":"B","klen":klen,"d":s("b.d"),"pk":s("b.pk"),"id":Value::Null,"peer_id":Value::Null,"peer_pk":s("a.pk")}));
                w.exec(json!({"op":"sm2.kex.1","obj":s("A"),"out":s("ra"),"rng":rng_json(&uniform_script(p, 1))}));
                call!(w, json!({"op":"sm2.kex.2","obj":s("B"),"ra":s("ra"),"ra_via":"new","out_rb":s("rb"),"out_sb":s("sb"),"rng":script}));
            }
        }
        "sm9.master.sign" | "sm9.master.enc" => {
            let kind = if site.ends_with("sign") { "sign" } else { "enc" };
            call!(w, json!({"op":"sm9.master","impl":"lib","kind":kind,"k":s("k"),"pub":s("pub"),"rng":script}));
        }
        "sm9.sign" => {
            let (k, _) = scalar_class(p, &order_of(site));
            w.exec(set(&s("k"), &be32(&k)));
            w.exec(json!({"op":"sm9.master_pub","impl":"ref","kind":"sign","k":s("k"),"pub":s("pub")}));
            let idlen = p.range(1, 12);
            w.exec(set(&s("id"), &p.bytes(idlen)));
            w.exec(json!({"op":"sm9.extract","impl":"ref","kind":"sign","k":s("k"),"pub":s("pub"),"id":s("id"),"out":s("uk")}));
            let len = p.range(0, 40);
            w.exec(set(&s("msg"), &p.bytes(len)));
            if w.has(&s("uk")) {
                call!(w, json!({"op":"sm9.sign","impl":"lib","ds":s("uk"),"ppubs":s("pub"),"id":s("id"),"msg":s("msg"),"sig":s("sig"),"light":true,"rng":script}));
            }
        }
        "sm9.encrypt" | "sm9.kex1a" | "sm9.kex1b" => {
            let (k, _) = scalar_class(p, &order_of(site));
            w.exec(set(&s("k"), &be32(&k)));
            w.exec(json!({"op":"sm9.master_pub","impl":"ref","kind":"enc","k":s("k"),"pub":s("pub")}));
            let idlen = p.range(1, 12);
            w.exec(set(&s("id"), &p.bytes(idlen)));
            let idlen = p.range(1, 12);
            w.exec(set(&s("idb"), &p.bytes(idlen)));
            match site {
                "sm9.encrypt" => {
                    let len = p.range(2, 40);
                    w.exec(set(&s("msg"), &p.bytes(len)));
                    call!(w, json!({"op":"sm9.encrypt","impl":"lib","ppube":s("pub"),"id":s("id"),"msg":s("msg"),"ct":s("ct"),"rng":script}));
                }
                "sm9.kex1a" => {
                    call!(w, json!({"op":"sm9.kex.1a","impl":"lib","ppube":s("pub"),"idb":s("idb"),"out_ra":s("ra"),"out_r":s("r"),"rng":script}));
                }
                _ => {
                    w.exec(json!({"op":"sm9.extract","impl":"ref","kind":"exch","k":s("k"),"pub":s("pub"),"id":s("idb"),"out":s("ukb")}));
                    w.exec(json!({"op":"sm9.kex.1a","impl":"ref","ppube":s("pub"),"idb":s("idb"),"out_ra":s("ra"),"out_r":s("r"),"rng":rng_json(&uniform_script(p, 1))}));
                    if w.has(&s("ukb")) {
                        let klen = p.range(1, 48);
                        call!(w, json!({"op":"sm9.kex.1b","impl":"lib","ppube":s("pub"),"ida":s("id"),"idb":s("idb"),"de":s("ukb"),"ra":s("ra"),"klen":klen,"out_rb":s("rb"),"out_sk":s("skb"),"conform":false,"rng":script}));
                    }
                }
            }
        }
        _ => unreachable!(),
    }
}

fn script_of(cands: Vec<[u8; 32]>, p: &mut Prng) -> Value {
    RngScript { cands, filler: p.next_u64(), real: false }.to_json()
}

struct Layout {
    n_fault: usize,
    n_double: usize,
    n_edge: usize,
    n_budget: usize,
    n_uniform: usize,
    n_observe: usize,
}

fn fault_menu(site: &str) -> Vec<(&'static str, [u8; 32])> {
    let pf = if is_sm2(site) { Some(crate::refmodel::sm2::with_curve(|c| c.p.clone())) } else { None };
    rng_fault_menu(&order_of(site), pf.as_ref())
}

const MENU_MAX: usize = 7;
const EDGE_MAX: usize = 7;

fn layout(t: Tier) -> Layout {
    Layout {
        n_fault: SITES.len() * MENU_MAX,
        n_double: SITES.len(),
        n_edge: SITES.len() * EDGE_MAX,
        n_budget: SITES.len(),
        n_uniform: t.pick(500, 25000),
        n_observe: SITES.len() + 1 + 2 + c14_par(t),
    }
}

fn c14_par(t: Tier) -> usize {
    t.pick(24, 240)
}
pub fn isolated_c14(t: Tier, i: usize) -> bool {
    i >= runs_c14(t) - c14_par(t) && i % 2 == 0
}

/// Two simulated caller threads draw from the REAL generator at once (worker process of its own):
/// several calls each, same site or two different ones. What they obtain must differ; the switch
/// points are the seam draws and whatever std::sync primitive the generator touches.
fn real_generator_two_callers(p: &mut Prng, w: &mut World) {
    let sites = ["sm2.keygen", "sm2.sign", "sm2.encrypt", "sm9.master.enc", "sm9.sign", "sm9.encrypt", "sm9.kex1a"];
    let sa = *p.pick(&sites);
    let sb = if p.chance(1, 2) { sa } else { *p.pick(&sites) };
    let (ia, ib) = (p.fork(), p.fork());
    site_call_mode(&mut ia.clone(), w, "pa", sa, json!({"real": true}), 1);
    site_call_mode(&mut ib.clone(), w, "pb", sb, json!({"real": true}), 1);
    let call_op = |inputs: &Prng, w: &World, pfx: &str, site: &str| -> Option<Value> {
        let mut probe = w.fork();
        site_call_mode(&mut inputs.clone(), &mut probe, pfx, site, json!({"real": true}), 2);
        probe.history.last().cloned().filter(|o| o.get("rng").is_some())
    };
    if let (Some(a), Some(b)) = (call_op(&ia, w, "pa", sa), call_op(&ib, w, "pb", sb)) {
        for _ in 0..p.range(2, 6) {
            w.exec(par(a.clone(), b.clone(), &par_order(p)));
        }
        w.bump("history.real-generator-two-callers");
    }
}

pub fn runs_c14(t: Tier) -> usize {
    let l = layout(t);
    l.n_fault + l.n_double + l.n_edge + l.n_budget + l.n_uniform + l.n_observe
}

pub fn observe_count(t: Tier, site: &str) -> usize {
    let (q, th) = match site {
        "sm2.keygen" | "sm2.sign" | "sm2.encrypt" | "sm2.kex1" => (2048, 65536),
        "sm2.kex2" => (1024, 16384),
        "sm9.master.enc" | "sm9.kex1a" => (1024, 32768),
        "sm9.master.sign" => (512, 8192),
        "sm9.sign" | "sm9.encrypt" => (256, 8192),
        _ => (256, 2048),
    };
    t.pick(q, th)
}

/// Worlds in which every site is invoked `per_site` times with the REAL generator passing through.
pub fn observe_world(p: &mut Prng, sites: &[&str], per_site: usize) -> World {
    let mut w = World::new();
    for site in sites {
        // set-up once per site, then only the randomised call is repeated
        let mut sp = p.fork();
        site_call_mode(&mut sp.clone(), &mut w, "o", site, json!({"real": true}), 1);
        for _ in 0..per_site {
            site_call_mode(&mut sp.clone(), &mut w, "o", site, json!({"real": true}), 2);
            // keep the world small: only the scalars (and any violation) matter
            w.history.clear();
        }
        w.objs.kex.clear();
        w.slots.clear();
        let _ = sp.next_u64();
    }
    w
}

pub fn run_c14(p: &mut Prng, t: Tier, i: usize, sink: &mut Sink) {
    let l = layout(t);
    let mut w = World::new();
    let mut i = i;
    // ---- each out-of-range candidate at each site, followed by a usable one
    if i < l.n_fault {
        let (site, f) = (SITES[i / MENU_MAX], i % MENU_MAX);
        let menu = fault_menu(site);
        if f < menu.len() {
            let good = good_candidate(p, site);
            w.bump(&format!("rngfault.offer-{}", menu[f].0));
            let sc = script_of(vec![menu[f].1, good], p);
        site_call(p, &mut w, "f", site, sc);
            if i == 1 {
                w.samples.push(json!({"site": site, "offered_first": menu[f].0, "schedule": w.history.clone()}));
            }
        }
        w.objs.kex.clear();
        sink.done(w);
        return;
    }
    i -= l.n_fault;
    // ---- two out-of-range candidates in a row
    if i < l.n_double {
        let site = SITES[i];
        let menu = fault_menu(site);
        let a = menu[p.below(menu.len() as u64) as usize].1;
        let b = menu[p.below(menu.len() as u64) as usize].1;
        let good = good_candidate(p, site);
        w.bump("rngfault.offer-double");
        let sc = script_of(vec![a, b, good], p);
        site_call(p, &mut w, "f", site, sc);
        w.objs.kex.clear();
        sink.done(w);
        return;
    }
    i -= l.n_double;
    // ---- in-range edge candidates (1, order-1, order-2, low limb zero): legal to use, legal to skip
    if i < l.n_edge {
        let (site, e) = (SITES[i / EDGE_MAX], i % EDGE_MAX);
        let menu = rng_edge_menu(&order_of(site));
        w.bump(&format!("rngfault.offer-edge-{}", menu[e].0));
        let sc = script_of(vec![menu[e].1], p);
        site_call(p, &mut w, "e", site, sc);
        w.objs.kex.clear();
        sink.done(w);
        return;
    }
    i -= l.n_edge;
    // ---- M2: eight out-of-range candidates, then the filler: must finish within the budget
    if i < l.n_budget {
        let site = SITES[i];
        let menu = fault_menu(site);
        let cands: Vec<[u8; 32]> = (0..8).map(|k| menu[k % menu.len()].1).collect();
        w.bump("rngfault.offer-eight-in-a-row");
        let sc = script_of(cands, p);
        site_call(p, &mut w, "b", site, sc);
        w.objs.kex.clear();
        sink.done(w);
        return;
    }
    i -= l.n_budget;
    // ---- M1: several calls at random sites in one world (freshness across the run)
    if i < l.n_uniform {
        let ncalls = p.range(3, 8);
        for k in 0..ncalls {
            // cheap sites more often
            let site = if p.chance(2, 3) { SITES[p.below(5) as usize] } else { SITES[5 + p.below(6) as usize] };
            let sc = rng_json(&uniform_script(p, 1));
            let inputs = p.fork();
            site_call(&mut inputs.clone(), &mut w, &format!("c{k}"), site, sc);
            // history: the very same inputs (same key, message, identity, object) once more with a
            // different script - a scalar cached per input or per object would be reused
            if p.chance(1, 3) {
                let sc2 = rng_json(&uniform_script(p, 1));
                w.bump("history.same-inputs-again");
                site_call_mode(&mut inputs.clone(), &mut w, &format!("c{k}"), site, sc2, 2);
            }
        }
        if i == 0 {
            w.samples.push(json!({"schedule": w.history.iter().take(14).cloned().collect::<Vec<_>>() }));
        }
        w.objs.kex.clear();
        // two randomised calls by two caller threads (byte-slot sites only), interleaved at the seam
        if i % 4 == 1 {
            let sites = ["sm2.sign", "sm2.encrypt", "sm9.master.enc", "sm9.sign", "sm9.encrypt", "sm9.kex1a"];
            let (sa, sb) = (*p.pick(&sites), *p.pick(&sites));
            let (ia, ib) = (p.fork(), p.fork());
            site_call_mode(&mut ia.clone(), &mut w, "pa", sa, json!({}), 1);
            site_call_mode(&mut ib.clone(), &mut w, "pb", sb, json!({}), 1);
            // capture the call ops by running the call half on scratch worlds
            let call_op = |inputs: &Prng, w: &World, pfx: &str, site: &str, sc: Value| -> Option<Value> {
                let mut probe = w.fork();
                site_call_mode(&mut inputs.clone(), &mut probe, pfx, site, sc, 2);
                probe.history.last().cloned().filter(|o| o.get("rng").is_some())
            };
            let sca = rng_json(&uniform_script(p, 1));
            let scb = rng_json(&uniform_script(p, 1));
            if let (Some(a), Some(b)) = (call_op(&ia, &w, "pa", sa, sca), call_op(&ib, &w, "pb", sb, scb)) {
                w.exec(par(a, b, &par_order(p)));
            }
        }
        sink.done(w);
        return;
    }
    i -= l.n_uniform;
    // ---- M3: real generator observed (labelled non-replayable), then restart
    if i < SITES.len() {
        let site = SITES[i];
        let group = if is_sm2(site) { "sm2" } else { "sm9" };
        w.exec(json!({"op":"c14.observe","site":site,"n":observe_count(t, site),"seed":p.next_u64()}));
        w.exec(json!({"op":"c14.stats","group":group}));
        w.bump(&format!("history.m3-observe-{site}"));
        sink.done(w);
    } else if i >= SITES.len() + 3 {
        real_generator_two_callers(p, &mut w);
        w.objs.kex.clear();
        sink.done(w);
    } else if i < SITES.len() + 2 {
        // bulk: enough scalars for the birthday bound of a 32-bit (SM9: ~36-bit) internal value
        let group = if i == SITES.len() { "sm9" } else { "sm2" };
        // SM9: past 2^22 candidates (a generator re-keyed that often has wrapped once);
        // SM2 (a key generation each): past 2^20 candidates in the thorough tier only
        let n = if group == "sm9" { t.pick(3_400_000, 20_000_000) } else { t.pick(60_000, 2_400_000) };
        w.exec(json!({"op":"c14.bulk","group":group,"n":n}));
        w.exec(json!({"op":"c14.stats","group":group}));
        sink.done(w);
    } else {
        w.exec(json!({"op":"c14.observe","site":"all","n":2,"seed":p.next_u64()}));
        w.exec(json!({"op":"c14.restart","procs":3,"per_site":t.pick(4, 32)}));
        sink.done(w);
    }
}

/// `gmsim c14-child <per_site>`: a fresh process drawing from the real generator at every site.
pub fn child_main(per_site: usize) {
    let now = std::time::SystemTime::now().duration_since(std::time::UNIX_EPOCH).map(|d| d.as_nanos()).unwrap_or(0);
    println!("env {now} {}", std::process::id());
    let mut p = Prng::new(0xC14C_411D);
    let w = observe_world(&mut p, &SITES, per_site);
    for (g, v) in &w.observed {
        println!("scalar {g} {}", hex::encode(v));
    }
}
