//! Scheduler for C19: key documents crossing program boundaries (writer/reader played by the
//! library or the reference, OpenSSL-produced corpus), GM/T 0009 ASN.1 ciphertexts with
//! seam-chosen ephemeral points (rare-event table: coordinates with leading/trailing zero bytes,
//! top bits), and stored-byte faults on every document kind.

use crate::gen_common::*;
use crate::prng::Prng;
use crate::refmodel::sm2 as rsm2;
use crate::runner::{sample_prng, Sink, Tier};
use crate::world::World;
use num_bigint::BigUint;
use serde_json::{json, Value};

pub const PK_ENCS: [&str; 6] = ["sec1c", "sec1u", "hexc", "hexu", "spki-der", "spki-pem"];
pub const SK_ENCS: [&str; 5] = ["bytes", "hex", "pkcs8-der", "pkcs8-pem", "sec1-der"];
const CHUNKS: usize = 8;

static CORPUS: &str = include_str!("../../corpus/openssl_index.json");
static RARE_K: &str = include_str!("../../corpus/rare_k.json");

pub fn corpus() -> Value {
    serde_json::from_str(CORPUS).expect("corpus json")
}
pub fn rare_k() -> Vec<(String, [u8; 32])> {
    let v: Value = serde_json::from_str(RARE_K).expect("rare_k json");
    v.as_array()
        .unwrap()
        .iter()
        .map(|e| {
            let mut k = [0u8; 32];
            k.copy_from_slice(&hex::decode(e["k"].as_str().unwrap()).unwrap());
            (e["class"].as_str().unwrap().to_string(), k)
        })
        .collect()
}

fn n_dist(t: Tier) -> usize {
    t.pick(600, 30000)
}
fn n_asn1(t: Tier) -> usize {
    t.pick(200, 10000)
}
fn n_fault_docs(t: Tier) -> usize {
    t.pick(2, 40) * (PK_ENCS.len() + SK_ENCS.len() + 1)
}
pub const N_SEMANTIC: usize = 4;
pub fn runs_c19(t: Tier) -> usize {
    1 + n_dist(t) + n_asn1(t) + n_fault_docs(t) * CHUNKS + N_SEMANTIC
}

/// Well-formed documents whose FIELDS have the wrong size: privateKey OCTET STRING of 0..=40
/// bytes (leading byte zero / non-zero), SPKI BIT STRING of many lengths and prefixes. No
/// truncation or single-byte corruption of a valid document produces these.
pub fn semantic_docs(p: &mut Prng, w: &mut World, which: usize) {
    use crate::ops_doc::pem_wrap;
    use crate::refmodel::der;
    let n = n_sm2();
    let (d, _) = scalar_class(p, &n);
    let point = rsm2::with_curve(|c| c.encode_point(&c.mul_g(&d), false));
    if which == 0 {
        for len in 0..=40usize {
            for lead in [0u8, 1, 0x80] {
                let mut dv = p.bytes(len);
                if len > 0 {
                    dv[0] = lead;
                }
                for with_pub in [false, true] {
                    let pubk = if with_pub { Some(&point[..]) } else { None };
                    let p8 = der::pkcs8_build_raw(&dv, pubk);
                    w.exec(set("sd.doc", &p8));
                    w.exec(json!({"op":"doc.sk.read","impl":"lib","enc":"pkcs8-der","doc":"sd.doc"}));
                    w.exec(set("sd.doc", &pem_wrap("PRIVATE KEY", &p8)));
                    w.exec(json!({"op":"doc.sk.read","impl":"lib","enc":"pkcs8-pem","doc":"sd.doc"}));
                    for params in [false, true] {
                        w.exec(set("sd.doc", &der::sec1_build_raw(&dv, pubk, params)));
                        w.exec(json!({"op":"doc.sk.read","impl":"lib","enc":"sec1-der","doc":"sd.doc"}));
                    }
                }
            }
        }
        // a well-formed PKCS#8 / SEC1 document whose embedded public key is ANOTHER valid point:
        // whatever the decoder does with it, the key it returns must carry [d]G
        let (d2, _) = scalar_class(p, &n);
        let other = rsm2::with_curve(|c| c.encode_point(&c.mul_g(&d2), false));
        let da = be32(&d);
        for doc in [der::pkcs8_build_raw(&da, Some(&other)), pem_wrap("PRIVATE KEY", &der::pkcs8_build_raw(&da, Some(&other)))] {
            let enc = if doc.starts_with(b"-----") { "pkcs8-pem" } else { "pkcs8-der" };
            w.exec(set("sd.doc", &doc));
            w.exec(json!({"op":"doc.sk.read","impl":"lib","enc":enc,"doc":"sd.doc"}));
        }
        w.exec(set("sd.doc", &der::sec1_build_raw(&da, Some(&other), true)));
        w.exec(json!({"op":"doc.sk.read","impl":"lib","enc":"sec1-der","doc":"sd.doc"}));
    } else if which == 3 {
        // GM/T 0009 ciphertexts that are well-formed DER but whose INTEGERs have every size from 0
        // to 65 octets (positive, minimal; also with a 00 pad before a high bit)
        let da = be32(&d);
        w.exec(set("sd.d", &da));
        let sizes = [0usize, 1, 2, 8, 16, 24, 30, 31, 32, 33, 34, 40, 48, 63, 64, 65];
        for &l1 in &sizes {
            for &l2 in &sizes {
                let mk = |p: &mut Prng, l: usize| -> Vec<u8> {
                    let mut v = p.bytes(l);
                    if l > 0 {
                        v[0] = 0x01 | (v[0] & 0x7f);
                    }
                    der::tlv(2, &v)
                };
                let mut body = mk(p, l1);
                body.extend_from_slice(&mk(p, l2));
                body.extend_from_slice(&der::tlv(4, &p.bytes(32)));
                body.extend_from_slice(&der::tlv(4, &p.bytes(7)));
                w.exec(set("sd.ct", &der::tlv(0x30, &body)));
                w.exec(json!({"op":"sm2.decrypt","impl":"lib","d":"sd.d","ct":"sd.ct","order":"C1C3C2","comp":false,"asn1":true}));
            }
        }
        // hash / ciphertext OCTET STRINGs of odd sizes around a genuine x, y
        w.exec(json!({"op":"sm2.derive_pk","impl":"ref","d":"sd.d","pk":"sd.pk","comp":false}));
        for hl in [0usize, 1, 31, 33, 64] {
            for cl in [0usize, 1, 32] {
                let mut body = der::der_uint(&BigUint::from_bytes_be(&point[1..33]));
                body.extend_from_slice(&der::der_uint(&BigUint::from_bytes_be(&point[33..65])));
                body.extend_from_slice(&der::tlv(4, &p.bytes(hl)));
                body.extend_from_slice(&der::tlv(4, &p.bytes(cl)));
                w.exec(set("sd.ct", &der::tlv(0x30, &body)));
                w.exec(json!({"op":"sm2.decrypt","impl":"lib","d":"sd.d","ct":"sd.ct","order":"C1C3C2","comp":false,"asn1":true}));
            }
        }
    } else if which == 2 {
        // document shapes: CRLF / CR / no final newline / extra blank lines / one long line in PEM,
        // empty PEM body, DER with indefinite or over-long length octets, trailing bytes
        let da = be32(&d);
        let spki = der::spki_build(&point);
        let p8 = der::pkcs8_build_raw(&da, Some(&point));
        let b64 = |der: &[u8]| -> String {
            let s = String::from_utf8(pem_wrap("X", der)).unwrap();
            s.lines().filter(|l| !l.starts_with("-----")).collect::<Vec<_>>().join("")
        };
        for (label, der_doc, kind) in [("PUBLIC KEY", spki.clone(), "pk"), ("PRIVATE KEY", p8.clone(), "sk")] {
            let body = b64(&der_doc);
            let wrapped: Vec<String> = body.as_bytes().chunks(64).map(|c| String::from_utf8(c.to_vec()).unwrap()).collect();
            let begin = format!("-----BEGIN {label}-----");
            let end = format!("-----END {label}-----");
            let shapes: Vec<String> = vec![
                format!("{begin}\r\n{}\r\n{end}\r\n", wrapped.join("\r\n")),
                format!("{begin}\n{}\n{end}", wrapped.join("\n")),
                format!("{begin}\n{}\n{end}\n\n", wrapped.join("\n")),
                format!("{begin}\n{body}\n{end}\n"),
                format!("{begin}\n\n{}\n{end}\n", wrapped.join("\n")),
                format!("{begin}\r{}\r{end}\r", wrapped.join("\r")),
                format!("{begin}\n{end}\n"),
                format!("{begin}\n====\n{end}\n"),
                format!("{begin}\n{}\n", wrapped.join("\n")),
                format!("{}\n{end}\n", wrapped.join("\n")),
                format!("  {begin}\n{}\n{end}\n", wrapped.join("\n")),
            ];
            for sdoc in shapes {
                w.exec(set("sd.doc", sdoc.as_bytes()));
                if kind == "pk" {
                    w.exec(json!({"op":"doc.pk.read","impl":"lib","enc":"spki-pem","doc":"sd.doc","fromstr":p.chance(1,2)}));
                } else {
                    w.exec(json!({"op":"doc.sk.read","impl":"lib","enc":"pkcs8-pem","doc":"sd.doc"}));
                }
            }
            // DER length octets: indefinite (80), long forms (81 xx, 82 00 xx, 84 00 00 00 xx), too long, trailing bytes
            let content = {
                let (_, c, _) = der::read_tlv(&der_doc).unwrap();
                c.to_vec()
            };
            let l = content.len();
            let mut variants: Vec<Vec<u8>> = vec![];
            for hdr in [vec![0x30u8, 0x80], vec![0x30, 0x81, l as u8], vec![0x30, 0x82, 0, l as u8], vec![0x30, 0x84, 0, 0, 0, l as u8], vec![0x30, 0x84, 0xff, 0xff, 0xff, 0xff], vec![0x30, 0x88, 0, 0, 0, 0, 0, 0, 0, l as u8], vec![0x30, (l + 1) as u8], vec![0x30, (l - 1) as u8], vec![0x30, 0x7f], vec![0x30, 0x00]] {
                let mut v = hdr;
                v.extend_from_slice(&content);
                variants.push(v);
            }
            let mut trailing = der_doc.clone();
            trailing.extend_from_slice(&[0, 0]);
            variants.push(trailing);
            for v in variants {
                w.exec(set("sd.doc", &v));
                if kind == "pk" {
                    w.exec(json!({"op":"doc.pk.read","impl":"lib","enc":"spki-der","doc":"sd.doc"}));
                } else {
                    w.exec(json!({"op":"doc.sk.read","impl":"lib","enc":"pkcs8-der","doc":"sd.doc"}));
                    w.exec(json!({"op":"doc.sk.read","impl":"lib","enc":"sec1-der","doc":"sd.doc"}));
                }
            }
        }
        // the same length-octet games on a GM/T 0009 ciphertext
        w.exec(set("sd.d", &da));
        w.exec(json!({"op":"sm2.derive_pk","impl":"ref","d":"sd.d","pk":"sd.pk","comp":false}));
        w.exec(set("sd.msg", &p.bytes(20)));
        w.exec(json!({"op":"sm2.encrypt","impl":"ref","pk":"sd.pk","msg":"sd.msg","ct":"sd.ct","order":"C1C3C2","comp":false,"asn1":true,"rng":rng_json(&uniform_script(p, 1))}));
        if let Some(ct) = w.slots.get("sd.ct").cloned() {
            let content = {
                let (_, c, _) = der::read_tlv(&ct).unwrap();
                c.to_vec()
            };
            let l = content.len();
            for hdr in [vec![0x30u8, 0x80], vec![0x30, 0x81, l as u8], vec![0x30, 0x82, 0, l as u8], vec![0x30, 0x84, 0, 0, 0, l as u8], vec![0x30, 0x84, 0xff, 0xff, 0xff, 0xff], vec![0x30, (l + 1) as u8], vec![0x30, 0x00]] {
                let mut v = hdr;
                v.extend_from_slice(&content);
                w.exec(set("sd.ct", &v));
                w.exec(json!({"op":"sm2.decrypt","impl":"lib","d":"sd.d","ct":"sd.ct","order":"C1C3C2","comp":false,"asn1":true}));
            }
        }
    } else {
        for len in (0..=70usize).chain([96, 97, 128, 129]) {
            for pre in [0x00u8, 0x02, 0x03, 0x04, 0x06, 0xff] {
                let mut pt = p.bytes(len);
                if len > 0 {
                    pt[0] = pre;
                }
                // also the true coordinates cut / padded to that length
                let mut cut = point.clone();
                cut.resize(len, 0);
                if len > 0 {
                    cut[0] = pre;
                }
                for body in [pt, cut] {
                    let spki = der::spki_build(&body);
                    w.exec(set("sd.doc", &spki));
                    w.exec(json!({"op":"doc.pk.read","impl":"lib","enc":"spki-der","doc":"sd.doc"}));
                    w.exec(set("sd.doc", &pem_wrap("PUBLIC KEY", &spki)));
                    w.exec(json!({"op":"doc.pk.read","impl":"lib","enc":"spki-pem","doc":"sd.doc","fromstr":len % 2 == 0}));
                }
            }
        }
    }
}

fn fault(slot: &str, kind: &str, extra: Value) -> Value {
    let mut v = json!({"op":"fault","slot":slot,"kind":kind});
    if let Value::Object(m) = extra {
        for (k, x) in m {
            v[k] = x;
        }
    }
    v
}

fn assert_hex(a: &str, hexs: &str, oracle: &str, what: &str) -> Value {
    json!({"op":"assert.eq","a":a,"hex":hexs.to_lowercase(),"property":"C19","oracle":oracle,"entry":"corpus","class":"openssl","what":what})
}

/// Documents produced by OpenSSL: must decode to the expected keys; its GM/T 0009 ciphertexts
/// must decrypt; its signatures must verify.
fn corpus_run(w: &mut World) {
    let c = corpus();
    for k in c["keys"].as_array().unwrap() {
        let name = k["name"].as_str().unwrap();
        let s = |x: &str| format!("{name}.{x}");
        w.exec(set(&s("spki_pem"), k["spki_pem"].as_str().unwrap().as_bytes()));
        w.exec(set(&s("spki_der"), &hex::decode(k["spki_der"].as_str().unwrap()).unwrap()));
        w.exec(set(&s("pkcs8_pem"), k["pkcs8_pem"].as_str().unwrap().as_bytes()));
        w.exec(set(&s("pkcs8_der"), &hex::decode(k["pkcs8_der"].as_str().unwrap()).unwrap()));
        w.exec(set(&s("sec1_der"), &hex::decode(k["sec1_der"].as_str().unwrap()).unwrap()));
        for (enc, doc) in [("spki-pem", "spki_pem"), ("spki-der", "spki_der")] {
            w.exec(json!({"op":"doc.pk.read","impl":"lib","enc":enc,"doc":s(doc),"out":s("pk")}));
            w.exec(assert_hex(&s("pk"), k["point"].as_str().unwrap(), "O19.2-openssl-document", "OpenSSL SPKI document decodes to another key"));
        }
        w.exec(json!({"op":"doc.pk.read","impl":"lib","enc":"spki-pem","doc":s("spki_pem"),"out":s("pk"),"fromstr":true}));
        for (enc, doc) in [("pkcs8-pem", "pkcs8_pem"), ("pkcs8-der", "pkcs8_der"), ("sec1-der", "sec1_der")] {
            w.exec(json!({"op":"doc.sk.read","impl":"lib","enc":enc,"doc":s(doc),"out_d":s("d")}));
            w.exec(assert_hex(&s("d"), k["d"].as_str().unwrap(), "O19.2-openssl-document", "OpenSSL private-key document decodes to another d"));
        }
    }
    for (i, it) in c["items"].as_array().unwrap().iter().enumerate() {
        let key = it["key"].as_str().unwrap();
        let s = |x: &str| format!("it{i}.{x}");
        let kd = c["keys"].as_array().unwrap().iter().find(|k| k["name"] == it["key"]).unwrap();
        w.exec(set(&s("d"), &hex::decode(kd["d"].as_str().unwrap()).unwrap()));
        w.exec(set(&s("pk"), &hex::decode(kd["point"].as_str().unwrap()).unwrap()));
        w.exec(set(&s("msg"), &hex::decode(it["msg"].as_str().unwrap()).unwrap()));
        w.exec(set(&s("ct"), &hex::decode(it["ct_der"].as_str().unwrap()).unwrap()));
        w.exec(json!({"op":"sm2.decrypt","impl":"lib","d":s("d"),"ct":s("ct"),"order":"C1C3C2","comp":false,"asn1":true,"out":s("pt")}));
        w.exec(json!({"op":"assert.eq","a":s("pt"),"b":s("msg"),"property":"C19","oracle":"O19.4-openssl-ciphertext","entry":"corpus","class":"openssl","what":"OpenSSL GM/T 0009 ciphertext does not decrypt to the message"}));
        // signatures (C03's completeness oracle rides along in sm2.verify)
        w.exec(set(&s("sig"), &hex::decode(it["sig"].as_str().unwrap()).unwrap()));
        w.exec(set(&s("id0"), b""));
        w.exec(json!({"op":"sm2.verify","impl":"lib","pk":s("pk"),"id":s("id0"),"msg":s("msg"),"sig":s("sig")}));
        w.exec(set(&s("id"), it["id"].as_str().unwrap().as_bytes()));
        w.exec(set(&s("sig2"), &hex::decode(it["sig_id"].as_str().unwrap()).unwrap()));
        w.exec(json!({"op":"sm2.verify","impl":"lib","pk":s("pk"),"id":s("id"),"msg":s("msg"),"sig":s("sig2")}));
        let _ = key;
    }
}

/// d whose public key has a coordinate with a leading zero byte (found with the reference).
fn rare_key(p: &mut Prng) -> BigUint {
    let n = n_sm2();
    for _ in 0..1500 {
        let d = (BigUint::from_bytes_be(&p.bytes32()) % (&n - 2u32)) + 1u32;
        let pt = rsm2::with_curve(|c| c.mul_g(&d)).unwrap();
        if be32(&pt.0)[0] == 0 || be32(&pt.1)[0] == 0 {
            return d;
        }
    }
    BigUint::from(1u32)
}

fn distribution_run(p: &mut Prng, w: &mut World) {
    let n = n_sm2();
    let d = if p.chance(1, 40) { rare_key(p) } else { scalar_class(p, &n).0 };
    w.exec(set("k.d", &be32(&d)));
    w.exec(json!({"op":"sm2.derive_pk","impl":"lib","d":"k.d","pk":"k.pk","comp":false}));
    // public key: write in one encoding, read it back
    let enc = *p.pick(&PK_ENCS);
    let writer = if p.chance(1, 3) { "ref" } else { "lib" };
    w.exec(json!({"op":"doc.pk.write","impl":writer,"pk":"k.pk","enc":enc,"out":"k.pkdoc"}));
    if w.slots.contains_key("k.pkdoc") {
        w.exec(json!({"op":"doc.pk.read","impl":"lib","enc":enc,"doc":"k.pkdoc","out":"k.pk2","fromstr":p.chance(1,2)}));
        w.exec(json!({"op":"assert.eq","a":"k.pk2","b":"k.pk","property":"C19","oracle":"O19.1-round-trip","entry":format!("sm2.pk.{enc}"),"class":"round-trip","what":"public key does not survive its encoding"}));
    }
    let enc = *p.pick(&SK_ENCS);
    let writer = if p.chance(1, 3) { "ref" } else { "lib" };
    w.exec(json!({"op":"doc.sk.write","impl":writer,"d":"k.d","enc":enc,"out":"k.skdoc"}));
    if w.slots.contains_key("k.skdoc") {
        w.exec(json!({"op":"doc.sk.read","impl":"lib","enc":enc,"doc":"k.skdoc","out_d":"k.d2"}));
        w.exec(json!({"op":"assert.eq","a":"k.d2","b":"k.d","property":"C19","oracle":"O19.1-round-trip","entry":format!("sm2.sk.{enc}"),"class":"round-trip","what":"private key does not survive its encoding"}));
    }
}

fn asn1_run(p: &mut Prng, w: &mut World, i: usize) {
    let n = n_sm2();
    let (d, _) = scalar_class(p, &n);
    w.exec(set("a.d", &be32(&d)));
    w.exec(json!({"op":"sm2.derive_pk","impl":"lib","d":"a.d","pk":"a.pk","comp":false}));
    // DER length-form boundaries of the inner OCTET STRING (127/128, 255/256, 65535/65536) and of the
    // outer SEQUENCE (content = len + ~104..108: len near 20, 148 and 65428), one per run in turn
    const EDGE: [usize; 40] = [
        1, 18, 19, 20, 21, 22, 23, 24, 25, 26, 127, 128, 129, 146, 147, 148, 149, 150, 151, 152, 153, 255, 256, 257, 65423, 65424, 65425, 65426, 65427, 65428, 65429, 65430, 65431, 65432,
        65535, 65536, 65537, 66000, 70000, 131072,
    ];
    let len = if i % 5 == 3 {
        w.bump("probe.asn1.length-form-edge");
        EDGE[(i / 5) % EDGE.len()]
    } else if p.chance(1, 3) {
        *p.pick(&[1usize, 31, 32, 33, 127, 128, 129, 255, 256])
    } else {
        p.range(1, 300)
    };
    w.exec(set("a.msg", &msg_of_len(p, len)));
    let order = if p.chance(1, 2) { "C1C2C3" } else { "C1C3C2" };
    let comp = p.chance(1, 3);
    // ephemeral scalar: rare-event table entry (cycled) or uniform
    let table = rare_k();
    let script = if i % 2 == 0 && !table.is_empty() {
        let (cls, k) = &table[(i / 2) % table.len()];
        w.bump(&format!("probe.asn1.rare-k.{cls}"));
        json!({"c":[hex::encode(k), hex::encode(k), hex::encode(k), hex::encode(k)],"f":p.next_u64()})
    } else {
        rng_json(&uniform_script(p, 1))
    };
    let encryptor = if p.chance(1, 4) { "ref" } else { "lib" };
    w.exec(json!({"op":"sm2.encrypt","impl":encryptor,"pk":"a.pk","msg":"a.msg","ct":"a.ct","order":order,"comp":comp,"asn1":true,"d":"a.d","rng":script}));
    if w.slots.contains_key("a.ct") {
        w.exec(json!({"op":"sm2.decrypt","impl":"lib","d":"a.d","ct":"a.ct","order":order,"comp":comp,"asn1":true,"out":"a.pt"}));
        w.exec(json!({"op":"assert.eq","a":"a.pt","b":"a.msg","property":"C19","oracle":"O19.4-round-trip","entry":"sm2.encrypt_asn1+decrypt_asn1","class":"round-trip","what":"decrypt_asn1(encrypt_asn1(M)) != M"}));
    }
}

/// One stored document (kind by index) and the storage-fault menu on it, split into chunks.
fn fault_doc_run(t: Tier, w: &mut World, didx: usize, chunk: usize, sink: &mut Sink) {
    let kinds = PK_ENCS.len() + SK_ENCS.len() + 1;
    let kind = didx % kinds;
    let mut sp = sample_prng("C19-doc", didx);
    let n = n_sm2();
    let (d, _) = scalar_class(&mut sp, &n);
    w.exec(set("f.d", &be32(&d)));
    w.exec(json!({"op":"sm2.derive_pk","impl":"ref","d":"f.d","pk":"f.pk","comp":false}));
    let writer = if sp.chance(1, 2) { "ref" } else { "lib" };
    let read: Value;
    if kind < PK_ENCS.len() {
        let enc = PK_ENCS[kind];
        w.exec(json!({"op":"doc.pk.write","impl":writer,"pk":"f.pk","enc":enc,"out":"f.doc"}));
        read = json!({"op":"doc.pk.read","impl":"lib","enc":enc,"doc":"f.doc"});
    } else if kind < PK_ENCS.len() + SK_ENCS.len() {
        let enc = SK_ENCS[kind - PK_ENCS.len()];
        w.exec(json!({"op":"doc.sk.write","impl":writer,"d":"f.d","enc":enc,"out":"f.doc"}));
        read = json!({"op":"doc.sk.read","impl":"lib","enc":enc,"doc":"f.doc"});
    } else {
        // ASN.1 ciphertext as a stored document
        w.exec(set("f.msg", &msg_of_len(&mut sp, 20)));
        w.exec(json!({"op":"sm2.encrypt","impl":"ref","pk":"f.pk","msg":"f.msg","ct":"f.doc","order":"C1C3C2","comp":false,"asn1":true,"d":"f.d","rng":rng_json(&uniform_script(&mut sp, 1))}));
        read = json!({"op":"sm2.decrypt","impl":"lib","d":"f.d","ct":"f.doc","order":"C1C3C2","comp":false,"asn1":true});
    }
    let doc = match w.slots.get("f.doc").cloned() {
        Some(d) => d,
        None => return,
    };
    w.exec(json!({"op":"copy","from":"f.doc","to":"f.doc0"}));
    let mut branches: Vec<Vec<Value>> = vec![vec![read.clone()]];
    let is_text = matches!(kind, 2 | 3 | 5) || (kind >= PK_ENCS.len() && matches!(SK_ENCS.get(kind - PK_ENCS.len()), Some(&"hex") | Some(&"pkcs8-pem")));
    if is_text {
        // text documents: every character replaced by another character of the same alphabet class,
        // by a character outside it, and deleted
        for pos in 0..doc.len() {
            let c = doc[pos];
            let alt = if c.is_ascii_hexdigit() { if c == b'0' { b'1' } else { b'0' } } else { b'A' };
            branches.push(vec![fault("f.doc", "setbyte", json!({"pos":pos,"val":alt})), read.clone()]);
            if pos % 4 == 0 {
                branches.push(vec![fault("f.doc", "setbyte", json!({"pos":pos,"val":b'g'})), read.clone()]);
                branches.push(vec![fault("f.doc", "setbyte", json!({"pos":pos,"val":b' '})), read.clone()]);
            }
        }
    } else {
        for bit in 0..doc.len() * 8 {
            branches.push(vec![fault("f.doc", "flip", json!({"bit":bit})), read.clone()]);
        }
        for pos in 0..doc.len() {
            for val in [0x00u8, 0xff] {
                branches.push(vec![fault("f.doc", "setbyte", json!({"pos":pos,"val":val})), read.clone()]);
            }
        }
    }
    for len in 0..doc.len() {
        branches.push(vec![fault("f.doc", "truncate", json!({"len":len})), read.clone()]);
    }
    for extra in 1..=t.pick(4usize, 66) {
        let fill = if is_text { vec![b'0'; extra] } else { vec![0u8; extra] };
        branches.push(vec![fault("f.doc", "extend", json!({"hex":hex::encode(fill)})), read.clone()]);
    }
    // semantic substitutions on raw point encodings
    if kind == 1 {
        let (pp, _) = rsm2::with_curve(|c| (c.p.clone(), ()));
        let max = (BigUint::from(1u32) << 256u32) - 1u32;
        for (pos, v) in [(1usize, pp.clone()), (33, pp.clone()), (1, max.clone()), (33, max), (1, BigUint::from(0u32)), (33, BigUint::from(0u32))] {
            branches.push(vec![fault("f.doc", "splice", json!({"pos":pos,"hex":hex::encode(be32(&v))})), read.clone()]);
        }
        for pre in [0u8, 1, 2, 3, 5, 6, 7, 0xff] {
            branches.push(vec![fault("f.doc", "setbyte", json!({"pos":0,"val":pre})), read.clone()]);
        }
    }
    if kind < 4 {
        // Non-canonical coordinates: x + p denotes the same field element as x, but only x is an
        // encoding. x + p fits 32 bytes only for x < 2^256 - p (about 2^224), which no sampled key
        // has - so the points with the smallest x on the curve are used: the (whole) document is
        // replaced by the encoding of such a point with x + p in place of x. Must be refused.
        let (pp, pts) = rsm2::with_curve(|c| {
            let mut v = vec![];
            for x0 in 0u32..64 {
                let mut enc = vec![2u8];
                enc.extend_from_slice(&be32(&BigUint::from(x0)));
                if let Ok(Some((x, y))) = c.decode_point(&enc) {
                    v.push((x, y));
                }
                if v.len() >= 6 {
                    break;
                }
            }
            (c.p.clone(), v)
        });
        for (x, y) in pts {
            let xw = &x + &pp;
            let doc: Vec<u8> = if kind == 0 || kind == 2 {
                let mut d = vec![if y.bit(0) { 3u8 } else { 2u8 }];
                d.extend_from_slice(&be32(&xw));
                d
            } else {
                let mut d = vec![4u8];
                d.extend_from_slice(&be32(&xw));
                d.extend_from_slice(&be32(&y));
                d
            };
            let doc = if kind >= 2 { hex::encode(&doc).into_bytes() } else { doc };
            w.bump("fault.non-canonical-small-x-plus-p");
            branches.push(vec![set("f.doc", &doc), read.clone()]);
        }
    }
    if kind == PK_ENCS.len() {
        // private key bytes: boundary values
        let nn = n_sm2();
        let max = (BigUint::from(1u32) << 256u32) - 1u32;
        for v in [BigUint::from(0u32), BigUint::from(1u32), &nn - 2u32, &nn - 1u32, nn.clone(), &nn + 1u32, max] {
            branches.push(vec![fault("f.doc", "replace", json!({"hex":hex::encode(be32(&v))})), read.clone()]);
        }
    }
    for (bi, br) in branches.into_iter().enumerate() {
        if bi % CHUNKS != chunk {
            continue;
        }
        let mut f = w.fork();
        for op in br {
            f.exec(op);
        }
        // history: the pristine document is read again after the damaged one
        if bi % 8 == 5 {
            f.exec(json!({"op":"copy","from":"f.doc0","to":"f.doc"}));
            f.exec(read.clone());
            f.bump("history.pristine-after-damaged");
        }
        sink.done(f);
    }
}

pub fn run_c19(p: &mut Prng, t: Tier, i: usize, sink: &mut Sink) {
    let mut w = World::new();
    if i == 0 {
        corpus_run(&mut w);
        sink.done(w);
        return;
    }
    let mut i = i - 1;
    if i < n_dist(t) {
        distribution_run(p, &mut w);
        if i == 0 {
            w.samples.push(json!({"schedule": w.history.clone()}));
        }
        sink.done(w);
        return;
    }
    i -= n_dist(t);
    if i < n_asn1(t) {
        asn1_run(p, &mut w, i);
        if i == 0 {
            w.samples.push(json!({"schedule": w.history.clone()}));
        }
        sink.done(w);
        return;
    }
    i -= n_asn1(t);
    if i >= n_fault_docs(t) * CHUNKS {
        semantic_docs(p, &mut w, i - n_fault_docs(t) * CHUNKS);
        w.bump("history.semantic-documents");
        sink.done(w);
        return;
    }
    let (didx, chunk) = (i / CHUNKS, i % CHUNKS);
    fault_doc_run(t, &mut w, didx, chunk, sink);
    if chunk == 0 {
        if didx == 0 {
            w.samples.push(json!({"base_schedule": w.history.clone(), "then":"every storage fault of the menu on a fork, followed by the decoder"}));
        }
        sink.done(w);
    }
}
