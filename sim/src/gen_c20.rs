//! Scheduler for C20: every receive-side entry point fed (a) every length 0..=200 of zero / FF /
//! seeded-random content and (b) every truncation, extensions and every single-byte corruption
//! (^01, ^80, :=00, :=FF) of a valid encoding, plus the termination clause for boundary keys.
//! Each call runs under panic capture, the RNG draw budget and the wall-clock watchdog.

use crate::gen_common::*;
use crate::prng::Prng;
use crate::refmodel::sm2 as rsm2;
use crate::refmodel::sm9 as rsm9;
use crate::runner::{sample_prng, Sink, Tier};
use crate::world::World;
use num_bigint::BigUint;
use serde_json::{json, Value};

const CHUNKS: usize = 4;
const RAW: usize = 200;

struct Target {
    name: String,
    /// op that consumes slot "x.in"
    call: Value,
    /// a valid encoding for the mutation part (None: raw part only)
    valid: Option<Vec<u8>>,
    text: bool,
    max_raw_len: usize,
}

const SM2_ORDERS: [(&str, bool); 4] = [("C1C2C3", false), ("C1C2C3", true), ("C1C3C2", false), ("C1C3C2", true)];
const SM4_MODES: [&str; 4] = ["cbc", "cfb", "ofb", "ctr"];

fn n_targets() -> usize {
    1 + 4 + 1 + 6 + 5 + 1 + 2 + 4 + 4 + 1 + 1 + 1 + 1
}
fn c20_par(t: Tier) -> usize {
    t.pick(120, 1200)
}
const SPECIALS: usize = 3 + crate::gen_c19::N_SEMANTIC + 1 + 1; // + SM9 identity-length sweep + long history (+ two-caller runs, by tier)
const SOAK: usize = SPECIALS - 1;

pub fn isolated_c20(t: Tier, i: usize) -> bool {
    i >= runs_c20(t) - c20_par(t) && i % 2 == 0
}
const ID_SWEEP: usize = 3 + crate::gen_c19::N_SEMANTIC; // kdf, compute_za, termination, well-formed-but-odd documents

fn samples(t: Tier) -> usize {
    t.pick(1, 8)
}

pub fn runs_c20(t: Tier) -> usize {
    n_targets() * CHUNKS * samples(t) + SPECIALS + c20_par(t)
}

/// Build target `ti` in world `w` (set-up ops are executed; they are part of the base schedule).
fn build_target(p: &mut Prng, w: &mut World, ti: usize) -> Target {
    let n = n_sm2();
    let (d, _) = scalar_class(p, &n);
    let mut k = ti;
    // --- SM2 material shared by the SM2 targets
    let sm2_setup = |p: &mut Prng, w: &mut World| {
        w.exec(set("x.d", &be32(&d)));
        w.exec(json!({"op":"sm2.derive_pk","impl":"ref","d":"x.d","pk":"x.pk","comp":false}));
        let len = p.range(1, 40);
        w.exec(set("x.msg", &p.bytes(len)));
    };
    if k == 0 {
        sm2_setup(p, w);
        w.exec(json!({"op":"sm2.sign","impl":"ref","d":"x.d","id":Value::Null,"msg":"x.msg","sig":"x.valid","rng":rng_json(&uniform_script(p, 1))}));
        return Target {
            name: "sm2.verify".into(),
            call: json!({"op":"sm2.verify","impl":"lib","pk":"x.pk","id":Value::Null,"msg":"x.msg","sig":"x.in"}),
            valid: w.slots.get("x.valid").cloned(),
            text: false,
            max_raw_len: RAW,
        };
    }
    k -= 1;
    if k < 4 {
        let (order, comp) = SM2_ORDERS[k];
        sm2_setup(p, w);
        w.exec(json!({"op":"sm2.encrypt","impl":"ref","pk":"x.pk","msg":"x.msg","ct":"x.valid","order":order,"comp":comp,"rng":rng_json(&uniform_script(p, 1))}));
        return Target {
            name: format!("sm2.decrypt[{order},{}]", if comp { "compressed" } else { "uncompressed" }),
            call: json!({"op":"sm2.decrypt","impl":"lib","d":"x.d","ct":"x.in","order":order,"comp":comp}),
            valid: w.slots.get("x.valid").cloned(),
            text: false,
            max_raw_len: RAW,
        };
    }
    k -= 4;
    if k == 0 {
        sm2_setup(p, w);
        w.exec(json!({"op":"sm2.encrypt","impl":"ref","pk":"x.pk","msg":"x.msg","ct":"x.valid","order":"C1C3C2","comp":false,"asn1":true,"rng":rng_json(&uniform_script(p, 1))}));
        return Target {
            name: "sm2.decrypt_asn1".into(),
            call: json!({"op":"sm2.decrypt","impl":"lib","d":"x.d","ct":"x.in","order":"C1C3C2","comp":false,"asn1":true}),
            valid: w.slots.get("x.valid").cloned(),
            text: false,
            max_raw_len: RAW,
        };
    }
    k -= 1;
    if k < 6 {
        let enc = crate::gen_c19::PK_ENCS[k];
        sm2_setup(p, w);
        w.exec(json!({"op":"doc.pk.write","impl":"ref","pk":"x.pk","enc":enc,"out":"x.valid"}));
        return Target {
            name: format!("sm2.pk.from_{enc}"),
            call: json!({"op":"doc.pk.read","impl":"lib","enc":enc,"doc":"x.in","fromstr": k == 5 && p.chance(1, 2)}),
            valid: w.slots.get("x.valid").cloned(),
            text: matches!(enc, "hexc" | "hexu" | "spki-pem"),
            max_raw_len: RAW,
        };
    }
    k -= 6;
    if k < 5 {
        let enc = crate::gen_c19::SK_ENCS[k];
        sm2_setup(p, w);
        w.exec(json!({"op":"doc.sk.write","impl":"ref","d":"x.d","enc":enc,"out":"x.valid"}));
        return Target {
            name: format!("sm2.sk.from_{enc}"),
            call: json!({"op":"doc.sk.read","impl":"lib","enc":enc,"doc":"x.in"}),
            valid: w.slots.get("x.valid").cloned(),
            text: matches!(enc, "hex" | "pkcs8-pem"),
            max_raw_len: RAW,
        };
    }
    k -= 5;
    // --- SM4
    let key16 = p.bytes(16);
    let iv16 = p.bytes(16);
    if k == 0 {
        return Target { name: "sm4.cipher_new".into(), call: json!({"op":"entry.sm4.new","key":"x.in"}), valid: Some(key16), text: false, max_raw_len: 200 };
    }
    k -= 1;
    if k < 2 {
        w.exec(set("x.key", &key16));
        let dir = if k == 0 { "encrypt" } else { "decrypt" };
        return Target {
            name: format!("sm4.block_{dir}"),
            call: json!({"op":"entry.sm4.block","key":"x.key","data":"x.in","dir":dir}),
            valid: Some(p.bytes(16)),
            text: false,
            max_raw_len: RAW,
        };
    }
    k -= 2;
    if k < 4 {
        let mode = SM4_MODES[k];
        w.exec(set("x.key", &key16));
        w.exec(set("x.iv", &iv16));
        w.exec(set("x.pt", &p.bytes(37)));
        w.exec(json!({"op":"entry.sm4.mode","mode":mode,"key":"x.key","data":"x.pt","iv":"x.iv","dir":"encrypt","out":"x.valid"}));
        return Target {
            name: format!("sm4.{mode}_decrypt(data)"),
            call: json!({"op":"entry.sm4.mode","mode":mode,"key":"x.key","data":"x.in","iv":"x.iv","dir":"decrypt"}),
            valid: w.slots.get("x.valid").cloned(),
            text: false,
            max_raw_len: RAW,
        };
    }
    k -= 4;
    if k < 4 {
        let mode = SM4_MODES[k];
        w.exec(set("x.key", &key16));
        w.exec(set("x.data", &p.bytes(32)));
        return Target {
            name: format!("sm4.{mode}_decrypt(iv)"),
            call: json!({"op":"entry.sm4.mode","mode":mode,"key":"x.key","data":"x.data","iv":"x.in","dir":"decrypt"}),
            valid: Some(iv16),
            text: false,
            max_raw_len: 40,
        };
    }
    k -= 4;
    if k == 0 {
        w.exec(set("x.iv", &iv16));
        w.exec(set("x.data", &p.bytes(32)));
        return Target {
            name: "sm4.mode_new(key)".into(),
            call: json!({"op":"entry.sm4.mode","mode":"cbc","key":"x.in","data":"x.data","iv":"x.iv","dir":"decrypt"}),
            valid: Some(key16),
            text: false,
            max_raw_len: 40,
        };
    }
    k -= 1;
    // --- SM9
    let order9 = rsm9::with(|s| s.n.clone());
    let (mk, _) = scalar_class(p, &order9);
    if k == 0 {
        w.exec(set("x.k", &be32(&mk)));
        w.exec(json!({"op":"sm9.master_pub","impl":"ref","kind":"enc","k":"x.k","pub":"x.pub"}));
        w.exec(set("x.id", b"Bob"));
        w.exec(json!({"op":"sm9.extract","impl":"ref","kind":"enc","k":"x.k","pub":"x.pub","id":"x.id","out":"x.uk"}));
        w.exec(set("x.msg", &p.bytes(20)));
        w.exec(json!({"op":"sm9.encrypt","impl":"ref","ppube":"x.pub","id":"x.id","msg":"x.msg","ct":"x.valid","rng":rng_json(&uniform_script(p, 1))}));
        return Target {
            name: "sm9.decrypt".into(),
            call: json!({"op":"sm9.decrypt","impl":"lib","de":"x.uk","ppube":"x.pub","id":"x.id","ct":"x.in","ref_on_reject":false}),
            valid: w.slots.get("x.valid").cloned(),
            text: false,
            max_raw_len: RAW,
        };
    }
    k -= 1;
    if k == 0 {
        w.exec(set("x.k", &be32(&mk)));
        w.exec(json!({"op":"sm9.master_pub","impl":"ref","kind":"sign","k":"x.k","pub":"x.pub"}));
        w.exec(set("x.id", b"Alice"));
        w.exec(json!({"op":"sm9.extract","impl":"ref","kind":"sign","k":"x.k","pub":"x.pub","id":"x.id","out":"x.uk"}));
        w.exec(set("x.msg", &p.bytes(20)));
        w.exec(json!({"op":"sm9.sign","impl":"ref","ds":"x.uk","ppubs":"x.pub","id":"x.id","msg":"x.msg","sig":"x.valid","rng":rng_json(&uniform_script(p, 1))}));
        return Target {
            name: "sm9.verify_sign".into(),
            call: json!({"op":"sm9.verify","impl":"lib","ppubs":"x.pub","id":"x.id","msg":"x.msg","sig":"x.in","ref_on_reject":false}),
            valid: w.slots.get("x.valid").cloned(),
            text: false,
            max_raw_len: 0,
        };
    }
    Target {
        name: "sm9.mod_n_from_hash".into(),
        call: json!({"op":"entry.sm9.mod_n_from_hash","data":"x.in"}),
        valid: Some(p.bytes(40)),
        text: false,
        max_raw_len: 200,
    }
}

fn inputs_for(p: &mut Prng, t: &Target, tier: Tier) -> Vec<Vec<Value>> {
    // each entry: ops that put the input into x.in
    let mut v: Vec<Vec<Value>> = vec![];
    for len in 0..=t.max_raw_len {
        if t.max_raw_len == 0 {
            break;
        }
        let (z, f, r) = if t.text {
            (vec![b'0'; len], vec![b'f'; len], (0..len).map(|_| b"0123456789abcdefABCDEF"[p.below(22) as usize]).collect::<Vec<u8>>())
        } else {
            (vec![0u8; len], vec![0xffu8; len], p.bytes(len))
        };
        for c in [z, f, r] {
            v.push(vec![set("x.in", &c)]);
        }
        if t.text {
            v.push(vec![set("x.in", &ascii(p, len))]);
        }
    }
    if t.text {
        // valid UTF-8 with multi-byte characters at every small offset (a &str API slices by bytes)
        let chars = ["é", "€", "𝄞", "用"];
        for pos in 0..10usize {
            for ch in chars {
                for tail in [0usize, 1, 64, 130] {
                    let mut sv = String::new();
                    sv.push_str(&"0x123456789abcdef0"[..pos.min(18)]);
                    sv.push_str(ch);
                    sv.push_str(&"a".repeat(tail));
                    v.push(vec![set("x.in", sv.as_bytes())]);
                }
            }
        }
        for n in [1usize, 2, 3, 16, 32, 33, 64, 65] {
            v.push(vec![set("x.in", "é".repeat(n).as_bytes())]);
            v.push(vec![set("x.in", "𝄞".repeat(n).as_bytes())]);
        }
        if let Some(valid) = &t.valid {
            if let Ok(vs) = std::str::from_utf8(valid) {
                for pos in (0..12).chain([vs.len() / 2, vs.len().saturating_sub(1), vs.len()]) {
                    if pos <= vs.len() && vs.is_char_boundary(pos) {
                        for ch in chars {
                            let mut sv = String::from(&vs[..pos]);
                            sv.push_str(ch);
                            sv.push_str(&vs[pos..]);
                            v.push(vec![set("x.in", sv.as_bytes())]);
                            // ... and replacing the character at pos
                            if pos < vs.len() {
                                let mut sr = String::from(&vs[..pos]);
                                sr.push_str(ch);
                                sr.push_str(&vs[pos + 1..]);
                                v.push(vec![set("x.in", sr.as_bytes())]);
                            }
                        }
                    }
                }
            }
        }
    }
    if let Some(valid) = &t.valid {
        let base: Vec<Value> = vec![set("x.in", valid)];
        v.push(base.clone());
        for len in 0..valid.len() {
            let mut o = base.clone();
            o.push(json!({"op":"fault","slot":"x.in","kind":"truncate","len":len}));
            v.push(o);
        }
        let max_ext = tier.pick(66usize, 66);
        for extra in 1..=max_ext {
            let mut o = base.clone();
            let fill = if t.text { vec![b'0'; extra] } else { p.bytes(extra) };
            o.push(json!({"op":"fault","slot":"x.in","kind":"extend","hex":hex::encode(fill)}));
            v.push(o);
        }
        for pos in 0..valid.len() {
            for (kind, val) in [("xorbyte", 0x01u8), ("xorbyte", 0x80), ("setbyte", 0x00), ("setbyte", 0xff)] {
                let mut o = base.clone();
                o.push(json!({"op":"fault","slot":"x.in","kind":kind,"pos":pos,"val":val}));
                v.push(o);
            }
        }
        if t.name == "sm9.verify_sign" {
            // h menu of the RNG/range faults x a few S variants
            let n = rsm9::with(|s| s.n.clone());
            let max = (BigUint::from(1u32) << 256u32) - 1u32;
            for h in [BigUint::from(0u32), BigUint::from(1u32), &n - 2u32, &n - 1u32, n.clone(), &n + 1u32, max] {
                for svar in 0..3 {
                    let mut o = base.clone();
                    o.push(json!({"op":"fault","slot":"x.in","kind":"splice","pos":0,"hex":hex::encode(be32(&h))}));
                    match svar {
                        1 => o.push(json!({"op":"fault","slot":"x.in","kind":"splice","pos":33,"hex":hex::encode(p.bytes(64))})),
                        2 => o.push(json!({"op":"fault","slot":"x.in","kind":"splice","pos":33,"hex":hex::encode([0u8; 64])})),
                        _ => {}
                    }
                    v.push(o);
                }
            }
        }
    }
    v
}

/// Two callers at receive-side entry points at once (worker process of its own; simulated caller
/// threads). One of the two inputs is now and then malformed; an entry point one caller has used
/// before sits beside one that is new to the process (a hit beside a miss in whatever is memoised).
fn two_callers(p: &mut Prng, w: &mut World, k: usize) {
    let n = n_sm2();
    let warm = p.chance(1, 2);
    let damage = |p: &mut Prng, w: &mut World, slot: &str| {
        if p.chance(1, 3) {
            let len = w.slots.get(slot).map(|v| v.len()).unwrap_or(1).max(1);
            match p.below(3) {
                0 => w.exec(json!({"op":"fault","slot":slot,"kind":"truncate","len":p.range(0, len - 1)})),
                1 => w.exec(json!({"op":"fault","slot":slot,"kind":"flip","bit":p.range(0, len * 8 - 1)})),
                _ => w.exec(json!({"op":"fault","slot":slot,"kind":"extend","hex":"00"})),
            };
        }
    };
    let (a, b): (Value, Value) = match k % 4 {
        0 => {
            // public-key decoders, all six encodings
            let mut ops = vec![];
            // (the compressed forms - a square root per decoding - in half of the runs on both sides)
            let both_compressed = p.chance(1, 2);
            for pfx in ["pa", "pb"] {
                let enc = if both_compressed { *p.pick(&["sec1c", "hexc"]) } else { *p.pick(&crate::gen_c19::PK_ENCS) };
                w.exec(set(&format!("{pfx}.d"), &be32(&scalar_class(p, &n).0)));
                w.exec(json!({"op":"sm2.derive_pk","impl":"ref","d":format!("{pfx}.d"),"pk":format!("{pfx}.pk"),"comp":false}));
                w.exec(json!({"op":"doc.pk.write","impl":"ref","pk":format!("{pfx}.pk"),"enc":enc,"out":format!("{pfx}.doc")}));
                ops.push(json!({"op":"doc.pk.read","impl":"lib","enc":enc,"doc":format!("{pfx}.doc")}));
            }
            (ops[0].clone(), ops[1].clone())
        }
        1 => {
            // SM2 decryption, compressed C1 in half of the runs
            let comp = p.chance(1, 2);
            let mut ops = vec![];
            for pfx in ["pa", "pb"] {
                w.exec(set(&format!("{pfx}.d"), &be32(&scalar_class(p, &n).0)));
                w.exec(json!({"op":"sm2.derive_pk","impl":"ref","d":format!("{pfx}.d"),"pk":format!("{pfx}.pk"),"comp":false}));
                w.exec(set(&format!("{pfx}.msg"), &p.bytes(20)));
                w.exec(json!({"op":"sm2.encrypt","impl":"ref","pk":format!("{pfx}.pk"),"msg":format!("{pfx}.msg"),"ct":format!("{pfx}.doc"),"order":"C1C3C2","comp":comp,"rng":rng_json(&uniform_script(p, 1))}));
                ops.push(json!({"op":"sm2.decrypt","impl":"lib","d":format!("{pfx}.d"),"ct":format!("{pfx}.doc"),"order":"C1C3C2","comp":comp,"out":format!("{pfx}.pt")}));
            }
            (ops[0].clone(), ops[1].clone())
        }
        2 => {
            // SM2 verification
            let mut ops = vec![];
            for pfx in ["pa", "pb"] {
                w.exec(set(&format!("{pfx}.d"), &be32(&scalar_class(p, &n).0)));
                w.exec(json!({"op":"sm2.derive_pk","impl":"ref","d":format!("{pfx}.d"),"pk":format!("{pfx}.pk"),"comp":p.chance(1, 2)}));
                w.exec(set(&format!("{pfx}.msg"), &p.bytes(20)));
                w.exec(json!({"op":"sm2.sign","impl":"ref","d":format!("{pfx}.d"),"id":Value::Null,"msg":format!("{pfx}.msg"),"sig":format!("{pfx}.doc"),"rng":rng_json(&uniform_script(p, 1))}));
                ops.push(json!({"op":"sm2.verify","impl":"lib","pk":format!("{pfx}.pk"),"id":Value::Null,"msg":format!("{pfx}.msg"),"sig":format!("{pfx}.doc")}));
            }
            (ops[0].clone(), ops[1].clone())
        }
        _ => {
            // SM9 verification: two identities under one master key, or two master keys
            let order9 = rsm9::with(|s| s.n.clone());
            let same_master = p.chance(1, 2);
            let mut ops = vec![];
            for pfx in ["pa", "pb"] {
                if pfx == "pb" && same_master {
                    w.exec(json!({"op":"copy","from":"pa.k","to":"pb.k"}));
                    w.exec(json!({"op":"copy","from":"pa.pub","to":"pb.pub"}));
                } else {
                    w.exec(set(&format!("{pfx}.k"), &be32(&scalar_class(p, &order9).0)));
                    w.exec(json!({"op":"sm9.master_pub","impl":"ref","kind":"sign","k":format!("{pfx}.k"),"pub":format!("{pfx}.pub")}));
                }
                w.exec(set(&format!("{pfx}.id"), &ascii(p, 6)));
                w.exec(json!({"op":"sm9.extract","impl":"ref","kind":"sign","k":format!("{pfx}.k"),"pub":format!("{pfx}.pub"),"id":format!("{pfx}.id"),"out":format!("{pfx}.ds")}));
                w.exec(set(&format!("{pfx}.msg"), &p.bytes(20)));
                w.exec(json!({"op":"sm9.sign","impl":"ref","ds":format!("{pfx}.ds"),"ppubs":format!("{pfx}.pub"),"id":format!("{pfx}.id"),"msg":format!("{pfx}.msg"),"sig":format!("{pfx}.doc"),"rng":rng_json(&uniform_script(p, 1))}));
                ops.push(json!({"op":"sm9.verify","impl":"lib","ppubs":format!("{pfx}.pub"),"id":format!("{pfx}.id"),"msg":format!("{pfx}.msg"),"sig":format!("{pfx}.doc"),"ref_on_reject":false}));
            }
            (ops[0].clone(), ops[1].clone())
        }
    };
    if !(w.slots.contains_key("pa.doc") && w.slots.contains_key("pb.doc")) {
        return;
    }
    if warm {
        w.exec(a.clone());
    }
    damage(p, w, "pb.doc");
    for _ in 0..3 {
        w.exec(par(a.clone(), b.clone(), &par_order(p)));
        w.exec(par(b.clone(), a.clone(), &par_order(p)));
    }
    w.bump("history.two-callers-at-entry-points");
}

pub fn run_c20(p: &mut Prng, tier: Tier, i: usize, sink: &mut Sink) {
    let nt = n_targets() * samples(tier);
    if i < nt * CHUNKS {
        let (tj, chunk) = (i / CHUNKS, i % CHUNKS);
        // sample s of target ti (thorough: several valid encodings / key sets per entry point)
        let (ti, smp) = (tj % n_targets(), tj / n_targets());
        let mut sp = sample_prng("C20-target", ti + 1000 * smp);
        let mut w = World::new();
        let t = build_target(&mut sp, &mut w, ti);
        // in every other chunk the simulator places the buffers handed to the entry point
        // (unaligned start; end flush against an unmapped page: an over-read is a SIGSEGV)
        if chunk % 2 == 1 {
            w.exec(json!({"op":"place.policy","seed":sp.next_u64()}));
        }
        let inputs = inputs_for(&mut sp, &t, tier);
        for (k, ops) in inputs.into_iter().enumerate() {
            if k % CHUNKS != chunk {
                continue;
            }
            let mut f = w.fork();
            for op in ops {
                f.exec(op);
            }
            f.exec(t.call.clone());
            f.bump(&format!("history.entry.{}", t.name));
            // history: after a malformed input the same entry point is given a well-formed one
            // (whatever the first call left behind - an error path's scratch state, a poisoned
            // lock - the second must still end in Ok or Err)
            if k % 8 == 3 {
                if let Some(valid) = &t.valid {
                    f.exec(set("x.in", valid));
                    f.exec(t.call.clone());
                    f.bump("history.entry.well-formed-after-malformed");
                }
            }
            sink.done(f);
        }
        if chunk == 0 {
            if ti == 1 {
                w.samples.push(json!({"entry": t.name, "base_schedule": w.history.clone(), "then": "each input of the menu put into x.in on a fork, followed by the call"}));
            }
            sink.done(w);
        }
        return;
    }
    let mut w = World::new();
    match i - nt * CHUNKS {
        0 => {
            // SM2 KDF helper: every klen 0..=200 and a few large ones, several Z lengths
            for zlen in [0usize, 1, 31, 32, 64, 65] {
                w.exec(set("z", &p.bytes(zlen)));
                for klen in (0..=200).chain([255, 256, 257, 1023, 1024, 4096, 65536]) {
                    w.exec(json!({"op":"entry.sm2.kdf","z":"z","klen":klen}));
                }
            }
        }
        1 => {
            // ZA helper: ID lengths around the ENTL limit, key on / off curve / infinity
            let (d, _) = scalar_class(p, &n_sm2());
            let on = rsm2::with_curve(|c| c.encode_point(&c.mul_g(&d), false));
            let mut off = on.clone();
            off[64] ^= 1;
            for (pk, via) in [(on.clone(), "struct"), (off, "struct"), (on.clone(), "inf")] {
                w.exec(set("pk", &pk));
                for idlen in [0usize, 1, 16, 8190, 8191, 8192, 8193, 20000, 70000] {
                    w.exec(set("id", &ascii(p, idlen)));
                    w.exec(json!({"op":"entry.sm2.compute_za","id":"id","pk":"pk","pk_via":via}));
                }
            }
        }
        x if x == ID_SWEEP => {
            // identities of every length 0..=300 (and two long ones) at the SM9 entry points that
            // hash them: verify_sign and decrypt (receive side), and the sending side for good measure
            let order9 = rsm9::with(|s| s.n.clone());
            let (mk, _) = scalar_class(p, &order9);
            w.exec(set("i.k", &be32(&mk)));
            w.exec(json!({"op":"sm9.master_pub","impl":"ref","kind":"sign","k":"i.k","pub":"i.pubs"}));
            w.exec(json!({"op":"sm9.master_pub","impl":"ref","kind":"enc","k":"i.k","pub":"i.pube"}));
            w.exec(set("i.id0", b"Alice"));
            w.exec(json!({"op":"sm9.extract","impl":"ref","kind":"sign","k":"i.k","pub":"i.pubs","id":"i.id0","out":"i.ds"}));
            w.exec(json!({"op":"sm9.extract","impl":"ref","kind":"enc","k":"i.k","pub":"i.pube","id":"i.id0","out":"i.de"}));
            w.exec(set("i.msg", b"identity sweep"));
            w.exec(json!({"op":"sm9.sign","impl":"ref","ds":"i.ds","ppubs":"i.pubs","id":"i.id0","msg":"i.msg","sig":"i.sig","rng":rng_json(&uniform_script(p, 1))}));
            w.exec(json!({"op":"sm9.encrypt","impl":"ref","ppube":"i.pube","id":"i.id0","msg":"i.msg","ct":"i.ct","rng":rng_json(&uniform_script(p, 1))}));
            for idlen in (0..=300usize).chain([1000, 5000]) {
                w.exec(set("i.id", &p.bytes(idlen)));
                w.exec(json!({"op":"sm9.verify","impl":"lib","ppubs":"i.pubs","id":"i.id","msg":"i.msg","sig":"i.sig","ref_on_reject":false}));
                w.exec(json!({"op":"sm9.decrypt","impl":"lib","de":"i.de","ppube":"i.pube","id":"i.id","ct":"i.ct","ref_on_reject":false}));
                if idlen % 10 == 0 || idlen > 245 && idlen < 262 {
                    w.exec(json!({"op":"sm9.encrypt","impl":"lib","ppube":"i.pube","id":"i.id","msg":"i.msg","ct":"i.ct2","rng":rng_json(&uniform_script(p, 1))}));
                    w.exec(json!({"op":"sm9.kex.1a","impl":"lib","ppube":"i.pube","idb":"i.id","out_ra":"i.ra","out_r":"i.r","rng":rng_json(&uniform_script(p, 1))}));
                }
            }
            w.bump("history.sm9-identity-sweep");
        }
        x if x > SOAK => {
            two_callers(p, &mut w, x - SOAK - 1);
        }
        x if x == SOAK => {
            // a long history in one process: more distinct (identity, key) pairs than any table or
            // memo the library could reasonably keep (2^16) is willing to hold
            w.exec(json!({"op":"entry.soak.sm2","kind":"cheap","n":tier.pick(70_000, 300_000),"seed":p.next_u64()}));
            w.exec(json!({"op":"entry.soak.sm2","n":tier.pick(5_000, 70_000),"seed":p.next_u64()}));
        }
        3 | 4 | 5 | 6 => {
            crate::gen_c19::semantic_docs(p, &mut w, i - nt * CHUNKS - 3);
        }
        _ => {
            // termination clause: every key the constructors accept must let sign and encrypt finish
            let n = n_sm2();
            let max = (BigUint::from(1u32) << 256u32) - 1u32;
            let mut keys: Vec<BigUint> = vec![BigUint::from(0u32), BigUint::from(1u32), BigUint::from(2u32), &n - 3u32, &n - 2u32, &n - 1u32, n.clone(), &n + 1u32, &max - 1u32, max];
            for _ in 0..6 {
                keys.push(scalar_class(p, &n).0);
            }
            for (j, kd) in keys.iter().enumerate() {
                let s = |x: &str| format!("t{j}.{x}");
                for enc in ["bytes", "hex"] {
                    let doc = if enc == "bytes" { be32(kd).to_vec() } else { hex::encode(be32(kd)).into_bytes() };
                    w.exec(set(&s("doc"), &doc));
                    let r = w.exec(json!({"op":"doc.sk.read","impl":"lib","enc":enc,"doc":s("doc"),"out_d":s("d")}));
                    if r.get("class").and_then(|c| c.as_str()) == Some("Ok") && w.slots.contains_key(&s("d")) {
                        w.bump("probe.c20.boundary-key-accepted");
                        w.exec(set(&s("msg"), b"termination"));
                        w.exec(json!({"op":"sm2.sign","impl":"lib","d":s("d"),"id":Value::Null,"msg":s("msg"),"sig":s("sig"),"rng":rng_json(&uniform_script(p, 2))}));
                        w.exec(json!({"op":"sm2.derive_pk","impl":"lib","d":s("d"),"pk":s("pk"),"comp":false}));
                        if w.slots.contains_key(&s("pk")) {
                            w.exec(json!({"op":"sm2.encrypt","impl":"lib","pk":s("pk"),"pk_via":"struct","msg":s("msg"),"ct":s("ct"),"order":"C1C3C2","comp":false,"rng":rng_json(&uniform_script(p, 2))}));
                        }
                    } else {
                        w.bump("probe.c20.boundary-key-rejected");
                    }
                }
            }
        }
    }
    sink.done(w);
}
