//! Shared pieces of the per-property schedulers: input classes, RNG scripts, interleaving.
#![allow(dead_code)]

use crate::prng::Prng;
use crate::refmodel::sm2 as rsm2;
use crate::simrng::RngScript;
use num_bigint::BigUint;
use num_traits::{One, Zero};
use serde_json::{json, Value};

pub fn set(slot: &str, b: &[u8]) -> Value {
    json!({"op":"set","slot":slot,"hex":hex::encode(b)})
}

pub fn n_sm2() -> BigUint {
    rsm2::with_curve(|c| c.n.clone())
}

/// Uniform-candidate script: `k` explicit candidates followed by a seeded filler.
pub fn uniform_script(p: &mut Prng, k: usize) -> RngScript {
    RngScript { cands: (0..k).map(|_| p.bytes32()).collect(), filler: p.next_u64(), real: false }
}

/// Script whose first candidate is, one time in four, a scalar of a structured class (1, 2, order-2,
/// sparse, dense, high-limb-only, limb-boundary) instead of uniform bytes: nonces and ephemeral
/// scalars then also visit the arithmetic corners that keys visit.
pub fn classy_script(p: &mut Prng, order: &BigUint) -> RngScript {
    if p.chance(1, 4) {
        let (k, _) = scalar_class(p, order);
        RngScript { cands: vec![be32(&k)], filler: p.next_u64(), real: false }
    } else {
        uniform_script(p, 1)
    }
}

pub fn be32(x: &BigUint) -> [u8; 32] {
    rsm2::be32(x)
}

/// Scalars in [1, order-2] by class.
pub fn scalar_class(p: &mut Prng, order: &BigUint) -> (BigUint, &'static str) {
    let top = order - 2u32; // inclusive upper bound
    let reduce = |v: BigUint| -> BigUint { (v % &top) + 1u32 };
    match p.below(12) {
        10 | 11 => {
            // limb boundaries: some 64-bit limbs all ones or all zero (carry / borrow chains),
            // built without a modular reduction so that the pattern survives
            let mut limbs = [0u64; 4];
            for l in limbs.iter_mut() {
                *l = match p.below(3) {
                    0 => u64::MAX,
                    1 => 0,
                    _ => p.next_u64(),
                };
            }
            if p.chance(1, 2) {
                limbs[0] = u64::MAX; // least significant limb
            }
            let hi_bound = (&top >> 192u32).to_u64_digits().first().copied().unwrap_or(0);
            if limbs[3] >= hi_bound {
                limbs[3] = if hi_bound > 0 { p.below(hi_bound) } else { 0 };
            }
            let mut v = BigUint::zero();
            for i in (0..4).rev() {
                v = (v << 64u32) | BigUint::from(limbs[i]);
            }
            if v.is_zero() {
                v = BigUint::one();
            }
            (v, "limb-boundary")
        }
        0 => (BigUint::one(), "1"),
        1 => (BigUint::from(2u32), "2"),
        2 => (top.clone(), "order-2"),
        3 => {
            // sparse: three bits set
            let mut v = BigUint::zero();
            for _ in 0..3 {
                v |= BigUint::one() << p.below(255);
            }
            (reduce(v), "sparse")
        }
        4 => {
            // dense: all ones with three bits cleared
            let mut v = (BigUint::one() << 256u32) - 1u32;
            for _ in 0..3 {
                let b = BigUint::one() << p.below(256);
                if (&v & &b) != BigUint::zero() {
                    v -= b;
                }
            }
            (reduce(v), "dense")
        }
        5 => {
            let v = BigUint::from(p.next_u64()) << 192u32;
            (reduce(v), "high-limb-only")
        }
        _ => (reduce(BigUint::from_bytes_be(&p.bytes32())), "uniform"),
    }
}

pub const MSG_LENS: [usize; 14] = [0, 1, 31, 32, 33, 55, 56, 63, 64, 65, 255, 256, 300, 4096];

pub fn msg_class(p: &mut Prng, max_random: usize) -> Vec<u8> {
    let len = if p.chance(1, 2) { *p.pick(&MSG_LENS) } else { p.range(0, max_random) };
    msg_of_len(p, len)
}

pub fn msg_of_len(p: &mut Prng, len: usize) -> Vec<u8> {
    match p.below(6) {
        0 => vec![0u8; len],
        1 => {
            let mut v = p.bytes(len);
            for b in v.iter_mut().take(4) {
                *b = 0;
            }
            v
        }
        2 => vec![0xffu8; len],
        _ => p.bytes(len),
    }
}

/// Signer / party identifiers (must be UTF-8: the library's API takes &str). None = default ID.
pub fn id_class(p: &mut Prng) -> Option<Vec<u8>> {
    match p.below(12) {
        0 | 1 | 2 => None,
        3 => Some(vec![]),
        4 => Some(b"A".to_vec()),
        5 => Some(b"1234567812345678".to_vec()),
        6 => Some(ascii(p, 100)),
        7 => Some(ascii(p, 8191)),
        8 => Some("用户甲@示例.中国".as_bytes().to_vec()),
        10 => {
            // every length around the SM3 block boundaries of the ZA input
            let n = p.range(0, 140);
            Some(ascii(p, n))
        }
        9 => Some(ascii(p, 8190)),
        _ => {
            let n = p.range(1, 40);
            Some(ascii(p, n))
        }
    }
}

pub fn ascii(p: &mut Prng, n: usize) -> Vec<u8> {
    (0..n).map(|_| 0x21 + p.below(0x5e) as u8).collect()
}

/// Merge per-session op queues into one sequence, order inside a session preserved,
/// the scheduler choosing which session advances at each step.
pub fn interleave(p: &mut Prng, mut queues: Vec<Vec<Value>>) -> Vec<Value> {
    for q in queues.iter_mut() {
        q.reverse();
    }
    let mut out = vec![];
    loop {
        let live: Vec<usize> = (0..queues.len()).filter(|i| !queues[*i].is_empty()).collect();
        if live.is_empty() {
            break;
        }
        let i = *p.pick(&live);
        out.push(queues[i].pop().unwrap());
    }
    out
}

/// As `interleave`, but now and then the next calls of two different sessions are made by two
/// caller threads at once (`par`), interleaved by the simulator at its scheduling points.
pub fn interleave_par(p: &mut Prng, mut queues: Vec<Vec<Value>>) -> Vec<Value> {
    fn is_lib_call(op: &Value) -> bool {
        let name = op.get("op").and_then(|v| v.as_str()).unwrap_or("");
        (name.starts_with("sm2.") || name.starts_with("sm9.")) && op.get("impl").and_then(|v| v.as_str()) != Some("ref")
    }
    for q in queues.iter_mut() {
        q.reverse();
    }
    let mut out = vec![];
    loop {
        let live: Vec<usize> = (0..queues.len()).filter(|i| !queues[*i].is_empty()).collect();
        if live.is_empty() {
            break;
        }
        let i = *p.pick(&live);
        if live.len() >= 2 && p.chance(1, 3) {
            let others: Vec<usize> = live.iter().copied().filter(|j| *j != i).collect();
            let j = *p.pick(&others);
            if is_lib_call(queues[i].last().unwrap()) && is_lib_call(queues[j].last().unwrap()) {
                let (a, b) = (queues[i].pop().unwrap(), queues[j].pop().unwrap());
                out.push(par(a, b, &par_order(p)));
                continue;
            }
        }
        out.push(queues[i].pop().unwrap());
    }
    out
}

/// Random interleaving order for a `par` op: which of the two caller threads proceeds at each
/// scheduling point (op start, every RNG draw, op end).
pub fn par_order(p: &mut Prng) -> String {
    // One letter per scheduling point (op start, RNG draw, std::sync primitive). Half of the orders
    // are uniformly random; the other half have few pre-emptions at random depths (runs of one
    // caller of length 1..6), which is where check-then-act windows a few primitives wide are hit.
    if p.chance(1, 2) {
        let n = p.range(2, 12);
        (0..n).map(|_| if p.chance(1, 2) { 'A' } else { 'B' }).collect()
    } else {
        let mut s = String::new();
        let mut who = if p.chance(1, 2) { 'A' } else { 'B' };
        for _ in 0..p.range(2, 5) {
            for _ in 0..p.range(1, 6) {
                s.push(who);
            }
            who = if who == 'A' { 'B' } else { 'A' };
        }
        s
    }
}

/// Order string for `n` callers (letters A..): uniformly random hand-overs.
pub fn par_order_n(p: &mut Prng, n: usize) -> String {
    let len = p.range(n, 4 * n);
    (0..len).map(|_| (b'A' + p.below(n as u64) as u8) as char).collect()
}

pub fn par_n(ops: Vec<Value>, order: &str) -> Value {
    json!({"op":"par","ops":ops,"order":order})
}

pub fn par(a: Value, b: Value, order: &str) -> Value {
    json!({"op":"par","a":a,"b":b,"order":order})
}

pub fn rng_json(s: &RngScript) -> Value {
    s.to_json()
}

/// The out-of-range / edge candidates of the RNG fault menu for a group order.
pub fn rng_fault_menu(order: &BigUint, p_field: Option<&BigUint>) -> Vec<(&'static str, [u8; 32])> {
    let max = (BigUint::one() << 256u32) - 1u32;
    let mut v: Vec<(&'static str, BigUint)> = vec![
        ("0", BigUint::zero()),
        ("order", order.clone()),
        ("order+1", order + 1u32),
        ("order+2^64", order + (BigUint::one() << 64u32)),
        ("2^256-1", max.clone()),
    ];
    if let Some(pf) = p_field {
        if pf > order {
            v.push(("p-2", pf - 2u32));
            v.push(("(order+p)/2", (order + pf) >> 1));
        }
    }
    v.into_iter().filter(|(_, x)| x <= &max).map(|(n, x)| (n, be32(&x))).collect()
}

/// In-range edge candidates (must be usable): 1, order-1, order-2, low-limb-zero.
pub fn rng_edge_menu(order: &BigUint) -> Vec<(&'static str, [u8; 32])> {
    let lowzero = ((order >> 65u32) << 64u32) | BigUint::zero();
    // a zero 64-bit limb in the middle, non-zero limbs around it (windowed / limb-wise loops)
    let limb = |hi: u64, l2: u64, l1: u64, l0: u64| -> BigUint {
        (BigUint::from(hi) << 192u32) | (BigUint::from(l2) << 128u32) | (BigUint::from(l1) << 64u32) | BigUint::from(l0)
    };
    let top = (order >> 192u32).to_u64_digits().first().copied().unwrap_or(1) / 2;
    vec![
        ("1", be32(&BigUint::one())),
        ("order-1", be32(&(order - 1u32))),
        ("order-2", be32(&(order - 2u32))),
        ("low-limb-zero", be32(&lowzero)),
        ("limb1-zero", be32(&limb(top, 0x9e3779b97f4a7c15, 0, 0xd1342543de82ef95))),
        ("limb2-zero", be32(&limb(top, 0, 0x9e3779b97f4a7c15, 0xd1342543de82ef95))),
        ("limbs1-2-zero", be32(&limb(top | 1, 0, 0, 0xd1342543de82ef95))),
    ]
}

/// Identity pairs that collide under common 32-bit string hashes and weaker digests
/// (corpus/id_collisions.json, made by tools/mk_collisions.py): (family, a, b).
pub fn id_collisions() -> &'static Vec<(String, Vec<u8>, Vec<u8>)> {
    static T: std::sync::OnceLock<Vec<(String, Vec<u8>, Vec<u8>)>> = std::sync::OnceLock::new();
    T.get_or_init(|| {
        let path = std::path::PathBuf::from(std::env::var("GMSIM_VERIF_DIR").unwrap_or_else(|_| "/verif".into())).join("corpus/id_collisions.json");
        let txt = std::fs::read_to_string(&path).unwrap_or_else(|e| {
            eprintln!("HARNESS ERROR: cannot read {}: {e}", path.display());
            std::process::exit(2)
        });
        let v: Value = serde_json::from_str(&txt).expect("id_collisions.json");
        let mut out = vec![];
        for (fam, pairs) in v.as_object().expect("object") {
            for p in pairs.as_array().expect("array") {
                let a = p[0].as_str().expect("str").as_bytes().to_vec();
                let b = p[1].as_str().expect("str").as_bytes().to_vec();
                out.push((fam.clone(), a, b));
            }
        }
        out
    })
}

/// The SAME content in other common framings (what a caller who mixed up two APIs, or a peer that
/// speaks another encoding of the same structure, would deliver): text encodings of the bytes, and
/// for a sequence of fixed-size parts the DER forms (INTEGERs / OCTET STRINGs / BIT STRINGs in a
/// SEQUENCE) and parts padded to the next size. `parts`: the byte ranges of the components.
pub fn reframings(raw: &[u8], parts: &[(usize, usize)]) -> Vec<(&'static str, Vec<u8>)> {
    use crate::refmodel::der::{der_uint, tlv};
    let mut out: Vec<(&'static str, Vec<u8>)> = vec![];
    out.push(("hex-lower", hex::encode(raw).into_bytes()));
    out.push(("hex-upper", hex::encode_upper(raw).into_bytes()));
    out.push(("hex-0x", format!("0x{}", hex::encode(raw)).into_bytes()));
    // base64 (standard alphabet, padded)
    {
        const A: &[u8; 64] = b"ABCDEFGHIJKLMNOPQRSTUVWXYZabcdefghijklmnopqrstuvwxyz0123456789+/";
        let mut b = Vec::new();
        for ch in raw.chunks(3) {
            let n = (ch[0] as u32) << 16 | (*ch.get(1).unwrap_or(&0) as u32) << 8 | *ch.get(2).unwrap_or(&0) as u32;
            b.push(A[(n >> 18) as usize & 63]);
            b.push(A[(n >> 12) as usize & 63]);
            b.push(if ch.len() > 1 { A[(n >> 6) as usize & 63] } else { b'=' });
            b.push(if ch.len() > 2 { A[n as usize & 63] } else { b'=' });
        }
        out.push(("base64", b));
    }
    let comps: Vec<&[u8]> = parts.iter().filter(|(a, b)| a <= b && *b <= raw.len()).map(|(a, b)| &raw[*a..*b]).collect();
    if comps.len() == parts.len() && !comps.is_empty() {
        let ints: Vec<u8> = comps.iter().flat_map(|c| der_uint(&BigUint::from_bytes_be(c))).collect();
        out.push(("der-sequence-of-integers", tlv(0x30, &ints)));
        let octs: Vec<u8> = comps.iter().flat_map(|c| tlv(0x04, c)).collect();
        out.push(("der-sequence-of-octet-strings", tlv(0x30, &octs)));
        let bits: Vec<u8> = comps.iter().flat_map(|c| tlv(0x03, &[&[0u8][..], c].concat())).collect();
        out.push(("der-sequence-of-bit-strings", tlv(0x30, &bits)));
        out.push(("der-octet-string-of-all", tlv(0x04, raw)));
        let padded: Vec<u8> = comps.iter().flat_map(|c| [&[0u8][..], c].concat()).collect();
        out.push(("parts-padded-with-00", padded));
        let lenpref: Vec<u8> = comps.iter().flat_map(|c| [&(c.len() as u16).to_be_bytes()[..], c].concat()).collect();
        out.push(("parts-length-prefixed", lenpref));
    }
    out
}

/// History "damaged first": the receive op `recv` is given a damaged copy of what slot-field
/// `field` names BEFORE it ever sees the genuine one (the caller appends the genuine delivery).
/// A receiver that leaves something behind when it rejects (a pending table entry, a lock, a
/// half-updated cache) then meets the genuine message in that state. `min_len`: a lower bound of
/// the slot's length.
pub fn damaged_first(p: &mut Prng, recv: &Value, field: &str, min_len: usize) -> Vec<Value> {
    let src = recv.get(field).and_then(|v| v.as_str()).unwrap_or("").to_string();
    let tmp = format!("{src}.bad");
    let mut r = recv.clone();
    r[field] = json!(tmp);
    if let Some(o) = r.as_object_mut() {
        o.remove("out");
        o.remove("ref_on_reject");
    }
    let f = match p.below(5) {
        0 | 1 => json!({"op":"fault","slot":tmp,"kind":"flip","bit":p.range(0, min_len * 8 - 1)}),
        2 => json!({"op":"fault","slot":tmp,"kind":"truncate","len":p.range(0, min_len - 1)}),
        3 => json!({"op":"fault","slot":tmp,"kind":"extend","hex":"00"}),
        // the last byte (for r||s or h||S: the low byte of the second component / of y)
        _ => json!({"op":"fault","slot":tmp,"kind":"xorbyte","pos":min_len - 1,"val":1}),
    };
    vec![json!({"op":"copy","from":src,"to":tmp}), f, r]
}
