//! Schedulers for the SM2 encryption sessions: C05 (fault-free exploration with library and
//! reference on either side, every length 1..=300, scripted rare nonces) and C06 (fault
//! enumeration on the ciphertext in transit, incl. crafted invalid-curve ciphertexts).

use crate::gen_common::*;
use crate::prng::Prng;
use crate::refmodel::sm2::{self as rsm2, Order};
use crate::refmodel::sm3::{kdf, sm3_parts};
use crate::runner::{Sink, Tier};
use crate::world::World;
use num_bigint::BigUint;
use num_traits::Zero;
use serde_json::{json, Value};

pub fn isolated_c05(t: Tier, i: usize) -> bool {
    two_caller_run_c05(t, i) && i % 2 == 0
}
fn two_caller_run_c05(t: Tier, i: usize) -> bool {
    (3 + INTEROP..3 + INTEROP + t.pick(24, 480)).contains(&i)
}

pub fn runs_c05(t: Tier) -> usize {
    t.pick(640, 40000)
}
/// runs i in 3..3+INTEROP: fifty reference-made ciphertexts each (consecutive and random nonces)
/// delivered to the library: an independent encryptor's output must always decrypt
const INTEROP: usize = 30;
pub fn runs_c06(t: Tier) -> usize {
    t.pick(32, 1500)
}

const ORDERS: [&str; 2] = ["C1C2C3", "C1C3C2"];

fn enc_op(pfx: &str, imp: &str, order: &str, comp: bool, via: &str, script: Value) -> Value {
    let s = |x: &str| format!("{pfx}.{x}");
    json!({"op":"sm2.encrypt","impl":imp,"pk":s("pk"),"pk_via":via,"msg":s("msg"),"ct":s("ct"),"order":order,"comp":comp,"d":s("d"),"rng":script})
}
fn dec_op(pfx: &str, order: &str, comp: bool) -> Value {
    let s = |x: &str| format!("{pfx}.{x}");
    json!({"op":"sm2.decrypt","impl":"lib","d":s("d"),"ct":s("ct"),"order":order,"comp":comp,"out":s("pt")})
}

fn base_ops(p: &mut Prng, pfx: &str, msg: &[u8], order: &str, comp: bool, encryptor: &str) -> Vec<Value> {
    let n = n_sm2();
    let (d, _) = scalar_class(p, &n);
    let s = |x: &str| format!("{pfx}.{x}");
    let mut ops = vec![set(&s("d"), &be32(&d))];
    ops.push(json!({"op":"sm2.derive_pk","impl":"lib","d":s("d"),"pk":s("pk"),"comp":p.chance(1,3)}));
    ops.push(set(&s("msg"), msg));
    if p.chance(1, 5) {
        // history across operations: the same key pair first signs something
        ops.push(set(&s("smsg"), &p.bytes(12)));
        ops.push(json!({"op":"sm2.sign","impl":"lib","d":s("d"),"id":Value::Null,"msg":s("smsg"),"sig":s("ssig"),"rng":rng_json(&uniform_script(p, 1))}));
        ops.push(json!({"op":"sm2.verify","impl":"lib","pk":s("pk"),"id":Value::Null,"msg":s("smsg"),"sig":s("ssig")}));
    }
    let via = if p.chance(1, 5) { "struct" } else { "new" };
    // struct delivery needs the uncompressed wire form; the op falls back to `new` otherwise
    ops.push(enc_op(pfx, encryptor, order, comp, via, rng_json(&classy_script(p, &n))));
    ops
}

/// Search (with the reference) for a nonce whose KDF output is all zero for a 1-byte message
/// under public key `pk`: probability 1/256 per try. Returns (k_bad, tries).
pub fn find_zero_kdf_nonce(p: &mut Prng, pk: &rsm2::Pt, max_tries: usize) -> Option<BigUint> {
    let n = n_sm2();
    for _ in 0..max_tries {
        let k = (BigUint::from_bytes_be(&p.bytes32()) % (&n - 1u32)) + 1u32;
        let s = rsm2::with_curve(|c| c.mul(&k, pk));
        if let Some((x2, y2)) = s {
            let t = kdf(&[be32(&x2), be32(&y2)].concat(), 1);
            if t[0] == 0 {
                return Some(k);
            }
        }
    }
    None
}

pub fn run_c05(p: &mut Prng, t: Tier, i: usize, sink: &mut Sink) {
    let mut w = World::new();
    if i == 0 {
        annex_enc_session(&mut w);
        openssl_ciphertexts(&mut w);
        sink.done(w);
        return;
    }
    if i == 1 || (t == Tier::Thorough && i % 2000 == 1) {
        rare_retry_session(p, &mut w);
        sink.done(w);
        return;
    }
    if i == 2 {
        // the KDF clause: exactly the first klen bytes of SM3(Z||1)||SM3(Z||2)||... for klen on both
        // sides of every counter-byte boundary
        for zlen in [0usize, 64] {
            w.exec(set("z", &p.bytes(zlen)));
            for klen in (1..=96).chain([255, 256, 257, 8159, 8160, 8161, 8192, 8193, 16384, 65535, 65536, 65537]) {
                w.exec(json!({"op":"entry.sm2.kdf","z":"z","klen":klen}));
            }
        }
        // and messages beyond 255 KDF blocks / beyond 2^16 bytes, both directions
        for (mi, mlen) in [8200usize, 70000].iter().enumerate() {
        let msg = p.bytes(*mlen);
        for enc0 in ["lib", "ref"] {
            let enc = &format!("{enc0}{mi}");
            let mut ops = base_ops(p, enc, &msg, "C1C3C2", false, enc0);
            ops.push(dec_op(enc, "C1C3C2", false));
            for op in ops {
                w.exec(op);
            }
        }
        }
        sink.done(w);
        return;
    }
    if (3..3 + INTEROP).contains(&i) {
        let n = n_sm2();
        let (d, _) = scalar_class(p, &n);
        w.exec(set("x.d", &be32(&d)));
        w.exec(json!({"op":"sm2.derive_pk","impl":"ref","d":"x.d","pk":"x.pk","comp":false}));
        let k0 = (BigUint::from_bytes_be(&p.bytes32()) % (&n - 1000u32)) + 1u32;
        for j in 0..50u32 {
            let len = p.range(1, 64);
            w.exec(set("x.msg", &p.bytes(len)));
            let order = *p.pick(&ORDERS);
            let comp = p.chance(1, 2);
            let k = if j % 2 == 0 { &k0 + j } else { (BigUint::from_bytes_be(&p.bytes32()) % (&n - 1u32)) + 1u32 };
            let script = json!({"c":[hex::encode(be32(&k))],"f":p.next_u64()});
            w.exec(enc_op("x", "ref", order, comp, "new", script));
            w.exec(dec_op("x", order, comp));
            w.exec(json!({"op":"assert.eq","a":"x.pt","b":"x.msg","property":"C05","oracle":"O5.4-independent-ciphertext-decrypts","entry":"sm2.decrypt","class":"reference-made","what":"a ciphertext from a conforming independent encryptor does not decrypt"}));
            w.slots.remove("x.pt");
        }
        sink.done(w);
        return;
    }
    if two_caller_run_c05(t, i) {
        // Two parties with different keys on two simulated caller threads, in a worker process of
        // their own. Shapes: both encryptions cold; one recipient already used (hit beside miss);
        // the two decryptions side by side after one of them was done before (compressed C1 in
        // half of the runs: the point decoder's square root path).
        let (la, lb) = (p.range(1, 80), p.range(1, 80));
        let (ma, mb) = (msg_of_len(p, la), msg_of_len(p, lb));
        let (order, comp) = (*p.pick(&ORDERS), p.chance(1, 2));
        let mut ops_a = base_ops(p, "pa", &ma, order, comp, "lib");
        let mut ops_b = base_ops(p, "pb", &mb, order, comp, "lib");
        let (ea, eb) = (ops_a.pop().unwrap(), ops_b.pop().unwrap());
        for op in ops_a.into_iter().chain(ops_b) {
            w.exec(op);
        }
        let rt = |w: &mut World, pfx: &str| {
            w.exec(json!({"op":"assert.eq","a":format!("{pfx}.pt"),"b":format!("{pfx}.msg"),"property":"C05","oracle":"O5.1-round-trip","entry":"sm2.encrypt+decrypt","class":"round-trip","what":"decrypt(encrypt(M)) != M"}));
        };
        match i % 3 {
            0 => {
                w.exec(par(ea, eb, &par_order(p)));
            }
            1 => {
                w.exec(ea.clone());
                w.exec(par(ea, eb, &par_order(p)));
            }
            _ => {
                w.exec(ea);
                w.exec(eb);
                if w.slots.contains_key("pa.ct") {
                    w.exec(dec_op("pa", order, comp));
                }
            }
        }
        if w.slots.contains_key("pa.ct") && w.slots.contains_key("pb.ct") {
            w.exec(par(dec_op("pa", order, comp), dec_op("pb", order, comp), &par_order(p)));
            rt(&mut w, "pa");
            rt(&mut w, "pb");
        }
        sink.done(w);
        return;
    }
    // in a third of the runs every buffer handed to the library is placed by the simulator
    // (unaligned start; end flush against an unmapped page)
    if p.chance(1, 3) {
        w.exec(json!({"op":"place.policy","seed":p.next_u64()}));
    }
    let nsess = p.range(1, 3);
    let mut queues = vec![];
    for k in 0..nsess {
        // the first session of run i covers length (i mod 300)+1, so a quick batch covers 1..=300
        let len = if k == 0 {
            (i % 300) + 1
        } else if p.chance(1, 12) {
            p.range(301, t.pick(9000, 65536))
        } else {
            p.range(1, 300)
        };
        let msg = msg_of_len(p, len);
        let order = *p.pick(&ORDERS);
        let comp = p.chance(1, 2);
        let encryptor = if p.chance(3, 10) { "ref" } else { "lib" };
        let pfx = format!("s{k}");
        let mut ops = base_ops(p, &pfx, &msg, order, comp, encryptor);
        if p.chance(1, 12) {
            // the point at infinity handed over as the recipient's key (step A3 must refuse)
            let mut e = enc_op(&pfx, "lib", order, comp, "inf", rng_json(&uniform_script(p, 1)));
            e["ct"] = json!(format!("{pfx}.ct_inf"));
            ops.push(e);
        }
        if p.chance(1, 5) {
            ops.extend(damaged_first(p, &dec_op(&pfx, order, comp), "ct", 33 + 32 + 1));
        }
        ops.push(dec_op(&pfx, order, comp));
        // history: the same key pair is used again, possibly in another configuration
        if p.chance(1, 4) {
            let order2 = *p.pick(&ORDERS);
            let comp2 = p.chance(1, 2);
            ops.push(json!({"op":"assert.eq","a":format!("{pfx}.pt"),"b":format!("{pfx}.msg"),"property":"C05","oracle":"O5.1-round-trip","entry":"sm2.encrypt+decrypt","class":"round-trip","what":"decrypt(encrypt(M)) != M"}));
            ops.push(enc_op(&pfx, encryptor, order2, comp2, "new", rng_json(&uniform_script(p, 1))));
            ops.push(dec_op(&pfx, order2, comp2));
        }
        queues.push(ops);
    }
    for op in interleave_par(p, queues) {
        w.exec(op);
    }
    // round trip: what the library decrypted is what was encrypted
    for k in 0..nsess {
        w.exec(json!({"op":"assert.eq","a":format!("s{k}.pt"),"b":format!("s{k}.msg"),"property":"C05","oracle":"O5.1-round-trip","entry":"sm2.encrypt+decrypt","class":"round-trip","what":"decrypt(encrypt(M)) != M"}));
    }
    if i == 3 + INTEROP + t.pick(24, 480) || i == 3 + INTEROP + t.pick(24, 480) + 1 {
        w.samples.push(json!({"schedule": w.history.iter().take(12).cloned().collect::<Vec<_>>() }));
    }
    sink.done(w);
}

/// Ciphertexts from an independent encryptor (OpenSSL, committed corpus), converted from their
/// GM/T 0009 DER form to the raw C1||C3||C2 and C1||C2||C3 forms by the reference DER reader.
fn openssl_ciphertexts(w: &mut World) {
    let c = crate::gen_c19::corpus();
    for (i, it) in c["items"].as_array().unwrap().iter().enumerate() {
        let s = |x: &str| format!("ossl{i}.{x}");
        let kd = c["keys"].as_array().unwrap().iter().find(|k| k["name"] == it["key"]).unwrap();
        let der = hex::decode(it["ct_der"].as_str().unwrap()).unwrap();
        w.exec(set(&s("d"), &hex::decode(kd["d"].as_str().unwrap()).unwrap()));
        w.exec(set(&s("msg"), &hex::decode(it["msg"].as_str().unwrap()).unwrap()));
        for (order, o) in [("C1C3C2", Order::C1C3C2), ("C1C2C3", Order::C1C2C3)] {
            for comp in [false, true] {
                if let Some(raw) = crate::refmodel::der::sm2_cipher_from_der(&der, o, comp) {
                    w.exec(set(&s("ct"), &raw));
                    w.exec(dec_op(&format!("ossl{i}"), order, comp));
                    w.exec(json!({"op":"assert.eq","a":s("pt"),"b":s("msg"),"property":"C05","oracle":"O5.4-openssl-ciphertext","entry":"sm2.decrypt","class":"openssl","what":"OpenSSL ciphertext does not decrypt to the message"}));
                }
            }
        }
    }
}

fn annex_enc_session(w: &mut World) {
    let d = hex::decode("3945208F7B2144B13F36E38AC6D39F95889393692860B51A42FB81EF4DF7C5B8").unwrap();
    let k = "59276e27d506861a16680f3ad9c02dccef3cc1fa3cdbe4ce6d54b80deac1bc21";
    w.exec(set("annex.d", &d));
    w.exec(json!({"op":"sm2.derive_pk","impl":"lib","d":"annex.d","pk":"annex.pk","comp":false}));
    w.exec(set("annex.msg", b"encryption standard"));
    w.exec(enc_op("annex", "lib", "C1C3C2", false, "new", json!({"c":[k, k, k, k],"f":1})));
    w.exec(json!({"op":"assert.eq","a":"annex.ct","hex":"0404ebfc718e8d1798620432268e77feb6415e2ede0e073c0f4f640ecd2e149a73e858f9d81e5430a57b36daab8f950a3c64e6ee6a63094d99283aff767e124df059983c18f809e262923c53aec295d30383b54e39d609d160afcb1908d0bd876621886ca989ca9c7d58087307ca93092d651efa","property":"C05","oracle":"annex-example","entry":"sm2.encrypt","class":"annex-example","what":"GM/T 0003.5 Annex A ciphertext"}));
    w.exec(dec_op("annex", "C1C3C2", false));
}

/// 1-byte message, first offered nonce makes KDF(x2||y2, 1) == 00: the standard says pick
/// another k; the library must settle on the second candidate. Also the decrypt side: a
/// ciphertext built with the bad nonce must be rejected ("t all zero").
fn rare_retry_session(p: &mut Prng, w: &mut World) {
    let n = n_sm2();
    let (d, _) = scalar_class(p, &n);
    let pk = rsm2::with_curve(|c| c.mul_g(&d));
    let kbad = match find_zero_kdf_nonce(p, &pk, 4000) {
        Some(k) => k,
        None => return,
    };
    w.bump("probe.sm2.zero-kdf-nonce-found");
    let kgood = loop {
        let k = (BigUint::from_bytes_be(&p.bytes32()) % (&n - 1u32)) + 1u32;
        let s = rsm2::with_curve(|c| c.mul(&k, &pk)).unwrap();
        if kdf(&[be32(&s.0), be32(&s.1)].concat(), 1)[0] != 0 {
            break k;
        }
    };
    w.exec(set("r.d", &be32(&d)));
    w.exec(json!({"op":"sm2.derive_pk","impl":"lib","d":"r.d","pk":"r.pk","comp":false}));
    w.exec(set("r.msg", &[0x5a]));
    let order = *p.pick(&ORDERS);
    let comp = p.chance(1, 2);
    let script = json!({"c":[hex::encode(be32(&kbad)), hex::encode(be32(&kgood))],"f":p.next_u64()});
    w.exec(enc_op("r", "lib", order, comp, "new", script));
    w.exec(dec_op("r", order, comp));
    // hand-built ciphertext with the bad nonce: C2 = M xor 00 = M
    let (c1, s) = rsm2::with_curve(|c| (c.encode_point(&c.mul_g(&kbad), comp), c.mul(&kbad, &pk).unwrap()));
    let m = [0x5au8];
    let c3 = sm3_parts(&[&be32(&s.0), &m, &be32(&s.1)]);
    let mut ct = c1;
    if order == "C1C2C3" {
        ct.extend_from_slice(&m);
        ct.extend_from_slice(&c3);
    } else {
        ct.extend_from_slice(&c3);
        ct.extend_from_slice(&m);
    }
    w.exec(set("r.ct", &ct));
    w.exec(dec_op("r", order, comp));
}

// ---------------------------------------------------------------------------------------------

fn fault(slot: &str, kind: &str, extra: Value) -> Value {
    let mut v = json!({"op":"fault","slot":slot,"kind":kind});
    if let Value::Object(m) = extra {
        for (k, x) in m {
            v[k] = x;
        }
    }
    v
}

/// Ciphertext that is consistent for the victim (C2, C3 computed from [d]C1') for an arbitrary
/// affine point C1' = (x, y) -- on the curve or not. Only a check on C1 itself can reject it.
/// The same with C1 in compressed form (prefix from the parity of y, then x as sent).
fn crafted_ct_compressed(d: &BigUint, x: &BigUint, y: &BigUint, x_wire: &BigUint, msg: &[u8], order: &str) -> Option<Vec<u8>> {
    let full = crafted_ct(d, x, y, x_wire, msg, order)?;
    let mut ct = vec![if y.bit(0) { 3u8 } else { 2u8 }];
    ct.extend_from_slice(&full[1..33]);
    ct.extend_from_slice(&full[65..]);
    Some(ct)
}

fn crafted_ct(d: &BigUint, x: &BigUint, y: &BigUint, x_wire: &BigUint, msg: &[u8], order: &str) -> Option<Vec<u8>> {
    let s = rsm2::with_curve(|c| c.mul(d, &Some((x.clone(), y.clone()))))?;
    let t = kdf(&[be32(&s.0), be32(&s.1)].concat(), msg.len());
    let c2: Vec<u8> = msg.iter().zip(t.iter()).map(|(a, b)| a ^ b).collect();
    let c3 = sm3_parts(&[&be32(&s.0), msg, &be32(&s.1)]);
    let mut ct = vec![4u8];
    ct.extend_from_slice(&be32(x_wire));
    ct.extend_from_slice(&be32(y));
    if order == "C1C2C3" {
        ct.extend_from_slice(&c2);
        ct.extend_from_slice(&c3);
    } else {
        ct.extend_from_slice(&c3);
        ct.extend_from_slice(&c2);
    }
    Some(ct)
}

pub fn run_c06(p: &mut Prng, _t: Tier, i: usize, sink: &mut Sink) {
    if i < 4 {
        // a hand-built ciphertext whose key stream t is all zero (C2 = M): GB/T 32918.4 B4 says
        // "if t is all zero, report an error". Reachable on purpose only with a searched nonce.
        let mut z = World::new();
        let mut zp = crate::runner::sample_prng("C06-zero-t", i);
        rare_retry_session(&mut zp, &mut z);
        z.bump("fault.crafted-zero-keystream");
        sink.done(z);
    }
    let mut w = World::new();
    let order = ORDERS[i % 2];
    let comp = (i / 2) % 2 == 1;
    let mlen = match i % 5 {
        0 => 1,
        1 => 32,
        2 => p.range(2, 31),
        _ => p.range(33, 48),
    };
    let msg = msg_of_len(p, mlen);
    let encryptor = if p.chance(1, 3) { "ref" } else { "lib" };
    let ops_a = base_ops(p, "a", &msg, order, comp, encryptor);
    let bmsg = msg_of_len(p, mlen);
    let ops_b = base_ops(p, "b", &bmsg, order, comp, "lib");
    for op in interleave_par(p, vec![ops_a, ops_b]) {
        w.exec(op);
    }
    let dec = || dec_op("a", order, comp);
    {
        let mut f = w.fork();
        f.exec(dec());
        sink.done(f);
    }
    // pristine copies: every faulted delivery is preceded and followed by the genuine one
    w.exec(json!({"op":"copy","from":"a.ct","to":"a0.ct"}));
    w.exec(json!({"op":"copy","from":"a.d","to":"a0.d"}));
    let genuine = dec_op("a0", order, comp);
    let ct = match w.slots.get("a.ct").cloned() {
        Some(c) => c,
        None => {
            sink.done(w);
            return;
        }
    };
    let d = BigUint::from_bytes_be(&w.slots.get("a.d").cloned().unwrap());
    let mut branches: Vec<Vec<Value>> = vec![];
    for bit in 0..ct.len() * 8 {
        branches.push(vec![fault("a.ct", "flip", json!({"bit":bit})), dec()]);
    }
    for len in 0..ct.len() {
        branches.push(vec![fault("a.ct", "truncate", json!({"len":len})), dec()]);
    }
    for extra in [1usize, 2, 31, 32, 33] {
        branches.push(vec![fault("a.ct", "extend", json!({"hex":hex::encode(vec![0u8; extra])})), dec()]);
        branches.push(vec![fault("a.ct", "extend", json!({"hex":hex::encode(p.bytes(extra))})), dec()]);
    }
    // two-byte faults whose differences cancel under a folded comparison (inside C3, inside C2, across)
    let c1len0 = if comp { 33 } else { 65 };
    let (c3_lo, c2_lo, c2_len) = if order == "C1C3C2" { (c1len0, c1len0 + 32, ct.len() - c1len0 - 32) } else { (ct.len() - 32, c1len0, ct.len() - c1len0 - 32) };
    for _ in 0..32 {
        let (a, b) = (c3_lo + p.range(0, 31), c3_lo + p.range(0, 31));
        if a != b {
            branches.push(vec![fault("a.ct", "xorpair", json!({"pos1":a,"pos2":b,"val":1u8 << p.below(8)})), dec()]);
        }
    }
    for _ in 0..8 {
        let (a, b) = (c3_lo + p.range(0, 31), c2_lo + p.range(0, c2_len - 1));
        branches.push(vec![fault("a.ct", "xorpair", json!({"pos1":a,"pos2":b,"val":1u8 << p.below(8)})), dec()]);
    }
    // misdelivery: the bystander's ciphertext, the bystander's key
    branches.push(vec![fault("a.ct", "copy", json!({"from":"b.ct"})), dec()]);
    branches.push(vec![fault("a.d", "copy", json!({"from":"b.d"})), dec()]);
    // the same ciphertext in other framings, delivered to the RAW decryption API: the GM/T 0009
    // DER form, text encodings, DER wrappings of the three components
    {
        let (c2a, c2b, c3a, c3b) = (c2_lo, c2_lo + c2_len, c3_lo, c3_lo + 32);
        let mut parts = vec![(0usize, c3_lo.min(c2_lo)), (c2a, c2b), (c3a, c3b)];
        parts.sort();
        let mut forms = reframings(&ct, &parts);
        if let Some(d) = crate::refmodel::der::sm2_cipher_to_der(&ct, crate::ops_sm2::model(order).unwrap().0, comp) {
            forms.push(("gmt0009-der", d));
        }
        for (name, bytes) in forms {
            w.bump("fault.reframed");
            w.bump(&format!("probe.reframed.{name}"));
            branches.push(vec![set("a.ct", &bytes), dec()]);
        }
    }
    // wrong framing at the receiver: other order / other C1 form
    branches.push(vec![dec_op("a", ORDERS[(i + 1) % 2], comp)]);
    branches.push(vec![dec_op("a", order, !comp)]);
    // C1 substitutions
    let c1len = if comp { 33 } else { 65 };
    let c1 = rsm2::with_curve(|c| c.decode_point(&ct[..c1len]).ok().flatten());
    if let Some((x1, y1)) = c1.clone() {
        let (dbl, neg) = rsm2::with_curve(|c| (c.encode_point(&c.add(&c1, &c1), comp), c.encode_point(&c.neg(&c1), comp)));
        branches.push(vec![fault("a.ct", "splice", json!({"pos":0,"hex":hex::encode(&dbl)})), dec()]);
        branches.push(vec![fault("a.ct", "splice", json!({"pos":0,"hex":hex::encode(&neg)})), dec()]);
        // prefix faults
        for pre in [0x00u8, 0x01, 0x02, 0x03, 0x04, 0x05, 0x06, 0x07, 0xff] {
            branches.push(vec![fault("a.ct", "setbyte", json!({"pos":0,"val":pre})), dec()]);
        }
        let (pp, aa, bb) = rsm2::with_curve(|c| (c.p.clone(), c.a.clone(), c.b.clone()));
        if !comp {
            // y := p - y handled by `neg`; y := y + 1 (off curve)
            let off = (&y1 + 1u32) % &pp;
            branches.push(vec![fault("a.ct", "splice", json!({"pos":33,"hex":hex::encode(be32(&off))})), dec()]);
            // all-zero point, (0, sqrt(b)) style edge, coordinates = p
            branches.push(vec![fault("a.ct", "splice", json!({"pos":1,"hex":hex::encode([0u8; 64])})), dec()]);
            branches.push(vec![fault("a.ct", "splice", json!({"pos":1,"hex":hex::encode(be32(&pp))})), dec()]);
            branches.push(vec![fault("a.ct", "splice", json!({"pos":1,"hex":hex::encode(be32(&(&pp - 1u32)))})), dec()]);
            branches.push(vec![fault("a.ct", "splice", json!({"pos":33,"hex":hex::encode(be32(&(&pp - 1u32)))})), dec()]);
            // crafted "zero point": C1 = (0,0); a decoder that maps it to infinity computes x2 = y2 = 0
            {
                let z = BigUint::from(0u32);
                let t = kdf(&[0u8; 64], msg.len());
                let c2: Vec<u8> = msg.iter().zip(t.iter()).map(|(a, b)| a ^ b).collect();
                let c3 = sm3_parts(&[&[0u8; 32], &msg, &[0u8; 32]]);
                let mut c = vec![4u8];
                c.extend_from_slice(&be32(&z));
                c.extend_from_slice(&be32(&z));
                if order == "C1C2C3" {
                    c.extend_from_slice(&c2);
                    c.extend_from_slice(&c3);
                } else {
                    c.extend_from_slice(&c3);
                    c.extend_from_slice(&c2);
                }
                w.bump("fault.crafted-zero-point");
                branches.push(vec![set("a.ct", &c), dec()]);
            }
            // crafted, consistent for the victim: invalid-curve points (random x, y => on y^2 = x^3 + a x + b')
            for _ in 0..6 {
                let x = BigUint::from_bytes_be(&p.bytes32()) % &pp;
                let y = BigUint::from_bytes_be(&p.bytes32()) % &pp;
                let on = rsm2::with_curve(|c| c.on_curve(&Some((x.clone(), y.clone()))));
                if on || y.is_zero() {
                    continue;
                }
                if let Some(c) = crafted_ct(&d, &x, &y, &x, &msg, order) {
                    w.bump("fault.crafted-invalid-curve");
                    branches.push(vec![set("a.ct", &c), dec()]);
                }
            }
            // crafted, consistent: valid point with tiny x, sent as x + p (coordinate >= p)
            // the point (0, sqrt(b)) sent with x = p exactly (and canonically, which must decrypt)
            {
                let zero = BigUint::from(0u32);
                if let Some(ys) = rsm2::with_curve(|c| c.sqrt(&(&bb % &pp))) {
                    if let Some(c) = crafted_ct(&d, &zero, &ys, &pp, &msg, order) {
                        w.bump("fault.crafted-coordinate-ge-p");
                        branches.push(vec![set("a.ct", &c), dec()]);
                    }
                    if let Some(c) = crafted_ct(&d, &zero, &ys, &zero, &msg, order) {
                        branches.push(vec![set("a.ct", &c), dec()]);
                    }
                }
            }
            let mut xs = BigUint::from(p.range(1, 1000));
            for _ in 0..64 {
                let g = (&xs * &xs * &xs + &aa * &xs + &bb) % &pp;
                if let Some(ys) = rsm2::with_curve(|c| c.sqrt(&g)) {
                    let xw = &xs + &pp;
                    if xw.bits() <= 256 {
                        // in the C1 form this receiver expects (compressed: only the decoder's own
                        // range check on x stands between x + p and the point with abscissa x)
                        let craft = |xw: &BigUint| if comp { crafted_ct_compressed(&d, &xs, &ys, xw, &msg, order) } else { crafted_ct(&d, &xs, &ys, xw, &msg, order) };
                        if let Some(c) = craft(&xw) {
                            w.bump("fault.crafted-coordinate-ge-p");
                            branches.push(vec![set("a.ct", &c), dec()]);
                        }
                        // the same point sent canonically is a VALID ciphertext: must decrypt
                        if let Some(c) = craft(&xs) {
                            branches.push(vec![set("a.ct", &c), dec()]);
                        }
                    }
                    break;
                }
                xs += 1u32;
            }
        } else {
            // compressed C1 of a valid point with tiny x, sent as x + p: only the decoder's own range
            // check on x stands between this encoding and the point with abscissa x (body consistent
            // for the victim); the same point sent canonically must decrypt
            {
                let mut xs = BigUint::from(p.range(1, 1000));
                for _ in 0..64 {
                    let g = (&xs * &xs * &xs + &aa * &xs + &bb) % &pp;
                    if let Some(ys) = rsm2::with_curve(|c| c.sqrt(&g)) {
                        let xw = &xs + &pp;
                        if xw.bits() <= 256 {
                            if let Some(c) = crafted_ct_compressed(&d, &xs, &ys, &xw, &msg, order) {
                                w.bump("fault.crafted-coordinate-ge-p");
                                branches.push(vec![set("a.ct", &c), dec()]);
                            }
                            if let Some(c) = crafted_ct_compressed(&d, &xs, &ys, &xs, &msg, order) {
                                branches.push(vec![set("a.ct", &c), dec()]);
                            }
                        }
                        break;
                    }
                    xs += 1u32;
                }
            }
            // compressed x with no square root
            let mut x = x1.clone();
            for _ in 0..64 {
                x = (&x + 1u32) % &pp;
                let g = (&x * &x * &x + &aa * &x + &bb) % &pp;
                if rsm2::with_curve(|c| c.sqrt(&g)).is_none() {
                    branches.push(vec![fault("a.ct", "splice", json!({"pos":1,"hex":hex::encode(be32(&x))})), dec()]);
                    w.bump("fault.compressed-non-residue");
                    // ... and the same x with C2, C3 consistent for a decoder that takes
                    // g^((p+1)/4) as "the" root without checking it (both parities)
                    let e = (&pp + 1u32) >> 2;
                    let y0 = g.modpow(&e, &pp);
                    for y in [y0.clone(), (&pp - &y0) % &pp] {
                        if let Some(cu) = crafted_ct(&d, &x, &y, &x, &msg, order) {
                            // re-frame the uncompressed crafted ciphertext with a compressed C1
                            let mut c = vec![if y.bit(0) { 3u8 } else { 2u8 }];
                            c.extend_from_slice(&be32(&x));
                            c.extend_from_slice(&cu[65..]);
                            w.bump("fault.crafted-non-residue-consistent");
                            branches.push(vec![set("a.ct", &c), dec()]);
                        }
                    }
                    break;
                }
            }
            branches.push(vec![fault("a.ct", "splice", json!({"pos":1,"hex":hex::encode(be32(&pp))})), dec()]);
        }
    }
    for br in branches {
        let mut f = w.fork();
        f.exec(genuine.clone());
        for op in br {
            f.exec(op);
        }
        f.exec(genuine.clone());
        sink.done(f);
    }
    if i == 0 {
        w.samples.push(json!({"base_schedule": w.history, "then": "on a fork: genuine delivery, one fault of the menu, faulted delivery, genuine delivery again"}));
    }
    sink.done(w);
}
