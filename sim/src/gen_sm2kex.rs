//! Scheduler for C15: the four-message SM2 key agreement between two parties, each played by
//! the library or by the reference, honest and with every subset of the four messages (plus the
//! responder's stored copy of R_A) tampered in several ways.

use crate::gen_common::*;
use crate::prng::Prng;
use crate::refmodel::sm2 as rsm2;
use crate::runner::{Sink, Tier};
use crate::world::World;
use num_bigint::BigUint;
use serde_json::{json, Value};

pub const TAMPER_KINDS: [&str; 3] = ["flip", "substitute", "offcurve"];

pub fn honest_runs(t: Tier) -> usize {
    t.pick(400, 40000)
}
pub fn tamper_samples(t: Tier) -> usize {
    t.pick(6, 300)
}
/// 16 subsets x 3 kinds per sample, plus stored-R_A faults
fn c15_par(t: Tier) -> usize {
    t.pick(24, 480)
}
pub fn isolated_c15(t: Tier, i: usize) -> bool {
    i > runs_c15(t) - 1 - c15_par(t) && i % 2 == 0
}
pub fn runs_c15(t: Tier) -> usize {
    1 + honest_runs(t) + tamper_samples(t) * (16 * TAMPER_KINDS.len() + 2) + c15_par(t)
}

fn class_of(v: &Value) -> &str {
    v.get("class").and_then(|c| c.as_str()).unwrap_or("")
}

struct Plan {
    impl_a: &'static str,
    impl_b: &'static str,
    via_ra: &'static str,
    via_rb: &'static str,
    /// bitmask over {R_A=1, R_B=2, S_B=4, S_A=8}, 16 = stored R_A
    tamper: u32,
    kind: &'static str,
}

fn tamper_point(p: &mut Prng, w: &mut World, slot: &str, kind: &str) -> Option<&'static str> {
    // returns the delivery route the receiver must use so that the fault reaches its own checks
    let cur = w.slots.get(slot).cloned()?;
    match kind {
        "flip" => {
            let bit = p.range(8, cur.len() * 8 - 1);
            w.exec(json!({"op":"fault","slot":slot,"kind":"flip","bit":bit}));
            Some("struct")
        }
        "substitute" => {
            // another valid point
            let k = (BigUint::from_bytes_be(&p.bytes32()) % (n_sm2() - 1u32)) + 1u32;
            let other = rsm2::with_curve(|c| c.encode_point(&c.mul_g(&k), false));
            w.exec(json!({"op":"fault","slot":slot,"kind":"replace","hex":hex::encode(other)}));
            Some(if p.chance(1, 2) { "new" } else { "struct" })
        }
        _ => {
            // off-curve: y := y + 1 mod p
            let pp = rsm2::with_curve(|c| c.p.clone());
            let y = (BigUint::from_bytes_be(&cur[33..65]) + 1u32) % pp;
            w.exec(json!({"op":"fault","slot":slot,"kind":"splice","pos":33,"hex":hex::encode(be32(&y))}));
            Some("struct")
        }
    }
}

fn tamper_hash(p: &mut Prng, w: &mut World, slot: &str, kind: &str) {
    match kind {
        "flip" => {
            let bit = p.range(0, 255);
            w.exec(json!({"op":"fault","slot":slot,"kind":"flip","bit":bit}));
        }
        "substitute" => {
            w.exec(json!({"op":"fault","slot":slot,"kind":"replace","hex":hex::encode(p.bytes(32))}));
        }
        _ => {
            // for hashes the third kind is a two-byte fault whose differences cancel under folding
            let (a, b) = (p.range(0, 15), p.range(16, 31));
            w.exec(json!({"op":"fault","slot":slot,"kind":"xorpair","pos1":a,"pos2":b,"val":1u8 << p.below(8)}));
        }
    }
}

fn session(p: &mut Prng, w: &mut World, pfx: &str, plan: &Plan, scripted: Option<(&str, &str, &str, &str)>) {
    let s = |x: &str| format!("{pfx}.{x}");
    let n = n_sm2();
    let klen = if scripted.is_some() {
        16
    } else if p.chance(1, 3) {
        *p.pick(&[1usize, 16, 31, 32, 33, 64, 65, 96, 128, 160, 192, 8160, 8161, 65535, 65536, 70000])
    } else {
        p.range(1, 200)
    };
    let (da, db) = match scripted {
        Some((da, db, _, _)) => (rsm2::hx(da), rsm2::hx(db)),
        None => {
            let a = scalar_class(p, &n).0;
            // ... and, rarely, the same key pair on both sides
            let b = if p.chance(1, 16) { a.clone() } else { scalar_class(p, &n).0 };
            (a, b)
        }
    };
    w.exec(set(&s("a.d"), &be32(&da)));
    w.exec(set(&s("b.d"), &be32(&db)));
    w.exec(json!({"op":"sm2.derive_pk","impl":"lib","d":s("a.d"),"pk":s("a.pk"),"comp":false}));
    w.exec(json!({"op":"sm2.derive_pk","impl":"lib","d":s("b.d"),"pk":s("b.pk"),"comp":false}));
    let ida = if scripted.is_some() { Some(b"1234567812345678".to_vec()) } else { id_class(p) };
    // relations between the two parties' inputs: same identity on both sides (1 in 8)
    let idb = if scripted.is_some() {
        None
    } else if p.chance(1, 8) {
        ida.clone()
    } else {
        id_class(p)
    };
    let mut idref = |w: &mut World, name: &str, v: &Option<Vec<u8>>| -> Value {
        match v {
            None => Value::Null,
            Some(b) => {
                w.exec(set(&s(name), b));
                json!(s(name))
            }
        }
    };
    let ida_ref = idref(w, "a.id", &ida);
    let idb_ref = idref(w, "b.id", &idb);
    let (oa, ob) = (s("A"), s("B"));
    w.exec(json!({"op":"sm2.kex.new","obj":oa,"impl":plan.impl_a,"role":"A","klen":klen,"d":s("a.d"),"pk":s("a.pk"),"id":ida_ref,"peer_id":idb_ref,"peer_pk":s("b.pk")}));
    w.exec(json!({"op":"sm2.kex.new","obj":ob,"impl":plan.impl_b,"role":"B","klen":klen,"d":s("b.d"),"pk":s("b.pk"),"id":idb_ref,"peer_id":ida_ref,"peer_pk":s("a.pk")}));
    let script = |p: &mut Prng, fixed: Option<&str>| -> Value {
        match fixed {
            Some(h) => json!({"c":[h.to_lowercase(), h.to_lowercase(), h.to_lowercase(), h.to_lowercase()],"f":7}),
            None => rng_json(&classy_script(p, &n_sm2())),
        }
    };
    // history: on some honest runs the same two Exchange objects run the protocol a second time
    let rounds = if scripted.is_none() && plan.tamper == 0 && p.chance(1, 4) { 2 } else { 1 };
    for round in 0..rounds {
        if round == 1 {
            w.bump("history.second-run-on-same-objects");
        }
        let reused = round == 1;
    // A1-A3
        let r1 = w.exec(json!({"op":"sm2.kex.1","obj":oa,"out":s("m1.ra"),"rng":script(p, scripted.map(|x| x.2))}));
        let mut alive = class_of(&r1) == "Ok";
        // a third of the time points travel as the un-normalised Jacobian struct exchange_1/2 returned
        let jac = |p: &mut Prng| -> String { format!("jac:01{}", hex::encode(p.bytes(31))) };
        let jac_ra = if scripted.is_none() && p.chance(1, 3) { Some(jac(p)) } else { None };
        let jac_rb = if scripted.is_none() && p.chance(1, 3) { Some(jac(p)) } else { None };
        let mut via_ra = plan.via_ra;
        if alive && plan.tamper & 1 != 0 {
            if let Some(v) = tamper_point(p, w, &s("m1.ra"), plan.kind) {
                via_ra = v;
            }
        }
        // B1-B9
        if alive {
            let r2 = w.exec(json!({"op":"sm2.kex.2","obj":ob,"ra":s("m1.ra"),"ra_via":jac_ra.clone().filter(|_| via_ra == "struct" || plan.tamper & 1 == 0).unwrap_or(via_ra.to_string()),"out_rb":s("m2.rb"),"out_sb":s("m2.sb"),"reused":reused,"rng":script(p, scripted.map(|x| x.3))}));
            alive = class_of(&r2) == "Ok";
        }
        if alive {
            w.exec(json!({"op":"copy","from":s("m1.ra"),"to":s("b.store.ra")}));
            let mut via_rb = plan.via_rb;
            if plan.tamper & 2 != 0 {
                if let Some(v) = tamper_point(p, w, &s("m2.rb"), plan.kind) {
                    via_rb = v;
                }
            }
            if plan.tamper & 4 != 0 {
                tamper_hash(p, w, &s("m2.sb"), plan.kind);
            }
            // A4-A10
            let r3 = w.exec(json!({"op":"sm2.kex.3","obj":oa,"rb":s("m2.rb"),"rb_via":jac_rb.clone().filter(|_| via_rb == "struct" || plan.tamper & 2 == 0).unwrap_or(via_rb.to_string()),"sb":s("m2.sb"),"out_sa":s("m3.sa"),"reused":reused}));
            alive = class_of(&r3) == "Ok";
        }
        if alive {
            if plan.tamper & 8 != 0 {
                tamper_hash(p, w, &s("m3.sa"), plan.kind);
            }
            if plan.tamper & 16 != 0 {
                tamper_point(p, w, &s("b.store.ra"), plan.kind);
            }
            // B10
            w.exec(json!({"op":"sm2.kex.4","obj":ob,"sa":s("m3.sa"),"ra":s("b.store.ra"),"ra_via":"struct","reused":reused}));
        }
        w.exec(json!({"op":"sm2.kex.end","a":oa,"b":ob}));
    }
}

/// Two honest agreements (four library parties, four keys) advance in lock step; the two calls of
/// each step are made by two simulated caller threads. Both must end with agreeing keys.
fn concurrent_sessions(p: &mut Prng, w: &mut World) {
    let n = n_sm2();
    let klen = p.range(1, 96);
    for pfx in ["k", "q"] {
        let s = |x: &str| format!("{pfx}.{x}");
        for side in ["a", "b"] {
            w.exec(set(&s(&format!("{side}.d")), &be32(&scalar_class(p, &n).0)));
            w.exec(json!({"op":"sm2.derive_pk","impl":"lib","d":s(&format!("{side}.d")),"pk":s(&format!("{side}.pk")),"comp":false}));
            w.exec(set(&s(&format!("{side}.id")), &ascii(p, 8)));
        }
        w.exec(json!({"op":"sm2.kex.new","obj":s("A"),"impl":"lib","role":"A","klen":klen,"d":s("a.d"),"pk":s("a.pk"),"id":s("a.id"),"peer_id":s("b.id"),"peer_pk":s("b.pk")}));
        w.exec(json!({"op":"sm2.kex.new","obj":s("B"),"impl":"lib","role":"B","klen":klen,"d":s("b.d"),"pk":s("b.pk"),"id":s("b.id"),"peer_id":s("a.id"),"peer_pk":s("a.pk")}));
    }
    let step = |pfx: &str, k: usize, p: &mut Prng| -> Value {
        let s = |x: &str| format!("{pfx}.{x}");
        match k {
            1 => json!({"op":"sm2.kex.1","obj":s("A"),"out":s("m1.ra"),"rng":rng_json(&uniform_script(p, 1))}),
            2 => json!({"op":"sm2.kex.2","obj":s("B"),"ra":s("m1.ra"),"ra_via":"new","out_rb":s("m2.rb"),"out_sb":s("m2.sb"),"reused":false,"rng":rng_json(&uniform_script(p, 1))}),
            3 => json!({"op":"sm2.kex.3","obj":s("A"),"rb":s("m2.rb"),"rb_via":"new","sb":s("m2.sb"),"out_sa":s("m3.sa"),"reused":false}),
            _ => json!({"op":"sm2.kex.4","obj":s("B"),"sa":s("m3.sa"),"ra":s("m1.ra"),"ra_via":"struct","reused":false}),
        }
    };
    // session q runs `lag` steps behind session k (0: same step side by side)
    let lag = p.range(0, 2);
    let mut alive = true;
    for t in 1..=(4 + lag) {
        let (sk, sq) = (t, t as isize - lag as isize);
        let a = if sk <= 4 { Some(step("k", sk, p)) } else { None };
        let b = if (1..=4).contains(&sq) { Some(step("q", sq as usize, p)) } else { None };
        let r = match (a, b) {
            (Some(a), Some(b)) => w.exec(par(a, b, &par_order(p))),
            (Some(x), None) | (None, Some(x)) => {
                let r = w.exec(x);
                json!({"a": r})
            }
            _ => Value::Null,
        };
        for side in ["a", "b"] {
            if let Some(x) = r.get(side) {
                if !x.is_null() && class_of(x) != "Ok" {
                    alive = false;
                }
            }
        }
        if !alive {
            break;
        }
    }
    w.exec(json!({"op":"sm2.kex.end","a":"k.A","b":"k.B"}));
    w.exec(json!({"op":"sm2.kex.end","a":"q.A","b":"q.B"}));
}

fn impls(p: &mut Prng) -> (&'static str, &'static str) {
    match p.below(4) {
        0 => ("lib", "ref"),
        1 => ("ref", "lib"),
        _ => ("lib", "lib"),
    }
}

pub fn run_c15(p: &mut Prng, t: Tier, i: usize, sink: &mut Sink) {
    let mut w = World::new();
    if i == 0 {
        // GM/T 0003.5 Annex A key agreement example, both roles played by the library
        let plan = Plan { impl_a: "lib", impl_b: "lib", via_ra: "new", via_rb: "new", tamper: 0, kind: "flip" };
        session(
            p,
            &mut w,
            "annex",
            &plan,
            Some((
                "81EB26E941BB5AF16DF116495F90695272AE2CD63D6C4AE1678418BE48230029",
                "785129917D45A9EA5437A59356B82338EAADDA6CEB199088F14AE10DEFA229B5",
                "D4DE15474DB74D06491C440D305E012400990F3E390C7E87153C12DB2EA60BB3",
                "7E07124814B309489125EAED101113164EBF0F3458C5BD88335C1F9D596243D6",
            )),
        );
        w.objs.kex.clear();
        sink.done(w);
        return;
    }
    let h = honest_runs(t);
    if i > runs_c15(t) - 1 - c15_par(t) {
        concurrent_sessions(p, &mut w);
        w.objs.kex.clear();
        sink.done(w);
        return;
    }
    let plan = if i <= h {
        let (a, b) = impls(p);
        Plan { impl_a: a, impl_b: b, via_ra: if p.chance(1, 2) { "new" } else { "struct" }, via_rb: if p.chance(1, 2) { "new" } else { "struct" }, tamper: 0, kind: "flip" }
    } else {
        let j = i - h - 1;
        let per = 16 * TAMPER_KINDS.len() + 2;
        let within = j % per;
        // the tamper oracles are evaluated where the party that has to notice is the library
        let (a, b) = match (j / per) % 3 {
            0 => ("lib", "lib"),
            1 => ("lib", "ref"),
            _ => ("ref", "lib"),
        };
        if within < 16 * TAMPER_KINDS.len() {
            Plan { impl_a: a, impl_b: b, via_ra: "new", via_rb: "new", tamper: (within % 16) as u32, kind: TAMPER_KINDS[within / 16] }
        } else {
            Plan { impl_a: a, impl_b: b, via_ra: "new", via_rb: "new", tamper: 16, kind: TAMPER_KINDS[within - 16 * TAMPER_KINDS.len()] }
        }
    };
    w.bump(&format!("history.tamper-subset-{:02}", plan.tamper));
    session(p, &mut w, "k", &plan, None);
    if i == 1 || i == h + 4 {
        w.samples.push(json!({"schedule": w.history.clone()}));
    }
    w.objs.kex.clear();
    sink.done(w);
}
