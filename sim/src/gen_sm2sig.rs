//! Schedulers for the SM2 signature sessions: C03 (fault-free exploration, library and
//! reference on either side) and C04 (fault enumeration on the signature in transit).

use crate::gen_common::*;
use crate::prng::Prng;
use crate::refmodel::sm2 as rsm2;
use crate::runner::{Sink, Tier};
use crate::world::World;
use num_bigint::BigUint;
use serde_json::{json, Value};

pub fn isolated_c03(t: Tier, i: usize) -> bool {
    // every other two-caller run: a fresh process (first-use races); the rest run in a worker that
    // has executed other runs before (tables warm, several keys seen)
    two_caller_run_c03(t, i) && i % 2 == 0
}
fn two_caller_run_c03(t: Tier, i: usize) -> bool {
    (2..2 + t.pick(24, 480)).contains(&i)
}

pub fn runs_c03(t: Tier) -> usize {
    t.pick(1200, 60000)
}
pub fn runs_c04(t: Tier) -> usize {
    t.pick(48, 2000)
}

struct Sess {
    pfx: String,
    d: BigUint,
    id: Option<Vec<u8>>,
    msg: Vec<u8>,
}

/// ops that establish a session's key material, message and signature
fn session_ops(p: &mut Prng, pfx: &str, signer: &str, gen_key_by_lib: bool) -> (Vec<Value>, Sess) {
    let n = n_sm2();
    let (d, _cls) = scalar_class(p, &n);
    let id = id_class(p);
    let msg = msg_class(p, 600);
    let mut ops = vec![];
    let s = |x: &str| format!("{pfx}.{x}");
    if gen_key_by_lib {
        ops.push(json!({"op":"sm2.keygen","impl":"lib","d":s("d"),"pk":s("pk"),"rng":rng_json(&uniform_script(p, 1))}));
    } else {
        ops.push(set(&s("d"), &be32(&d)));
        ops.push(json!({"op":"sm2.derive_pk","impl":"lib","d":s("d"),"pk":s("pk"),"comp":p.chance(1,3)}));
    }
    if let Some(i) = &id {
        ops.push(set(&s("id"), i));
    }
    ops.push(set(&s("msg"), &msg));
    // history across operations: the same key pair first encrypts and decrypts something
    if !gen_key_by_lib && p.chance(1, 5) {
        ops.push(set(&s("emsg"), &p.bytes(20)));
        ops.push(json!({"op":"sm2.encrypt","impl":"lib","pk":s("pk"),"msg":s("emsg"),"ct":s("ect"),"order":"C1C3C2","comp":false,"d":s("d"),"rng":rng_json(&uniform_script(p, 1))}));
        ops.push(json!({"op":"sm2.decrypt","impl":"lib","d":s("d"),"ct":s("ect"),"order":"C1C3C2","comp":false}));
    }
    let idref: Value = if id.is_some() { json!(s("id")) } else { Value::Null };
    ops.push(json!({"op":"sm2.sign","impl":signer,"d":s("d"),"id":idref,"msg":s("msg"),"sig":s("sig"),"rng":rng_json(&classy_script(p, &n))}));
    (ops, Sess { pfx: pfx.to_string(), d, id, msg })
}

fn verify_op(pfx: &str, has_id: bool, via: &str) -> Value {
    let s = |x: &str| format!("{pfx}.{x}");
    let idref: Value = if has_id { json!(s("id")) } else { Value::Null };
    json!({"op":"sm2.verify","impl":"lib","pk":s("pk"),"pk_via":via,"id":idref,"msg":s("msg"),"sig":s("sig")})
}

/// C03: 1-4 concurrent sessions, signer library or reference, verified by the library
/// (the verify op consults the reference verifier in both directions).
pub fn run_c03(p: &mut Prng, _t: Tier, i: usize, sink: &mut Sink) {
    let mut w = World::new();
    if i == 0 {
        annex_sign_session(&mut w);
        openssl_signatures(&mut w);
        rare_digest_sessions(&mut w, false);
    }
    if i == 1 {
        // very large inputs: messages around 2^16 and of 2^20 bytes, identities at the ENTL limit,
        // message equal to the identity
        let n = n_sm2();
        let (d, _) = scalar_class(p, &n);
        w.exec(set("big.d", &be32(&d)));
        w.exec(json!({"op":"sm2.derive_pk","impl":"lib","d":"big.d","pk":"big.pk","comp":false}));
        for (k, (mlen, idlen)) in [(65535usize, 16usize), (65536, 8191), (65537, 8190), (70000, 1), (1 << 20, 100), (8191, 8191)].iter().enumerate() {
            let id = ascii(p, *idlen);
            w.exec(set("big.id", &id));
            let msg = if k == 5 { id.clone() } else { p.bytes(*mlen) };
            w.exec(set("big.msg", &msg));
            for signer in ["lib", "ref"] {
                w.exec(json!({"op":"sm2.sign","impl":signer,"d":"big.d","id":"big.id","msg":"big.msg","sig":"big.sig","rng":rng_json(&uniform_script(p, 1))}));
                w.exec(verify_op("big", true, "new"));
            }
        }
        if matches!(_t, Tier::Thorough) {
            // a message just past 2^29 bytes = 2^32 bits (a length counter kept in 32 bits wraps);
            // thorough tier only: about 3 GiB of memory and a minute
            w.exec(set("big.id", b"1234567812345678"));
            w.exec(json!({"op":"set.fill","slot":"big.msg","len":(1u64 << 29) + 5,"seed":p.next_u64()}));
            w.exec(json!({"op":"sm2.sign","impl":"lib","d":"big.d","id":"big.id","msg":"big.msg","sig":"big.sig","rng":rng_json(&uniform_script(p, 1))}));
            w.exec(verify_op("big", true, "new"));
            w.slots.remove("big.msg");
            w.bump("history.message-of-2^29-bytes");
        }
        w.bump("history.very-large-inputs");
    }
    if two_caller_run_c03(_t, i) {
        // Two signers with different keys on two simulated caller threads, in a worker process of
        // their own (nothing in the library has been used yet). Three shapes: both cold; one key
        // already used (a hit beside a miss in whatever the library memoises); a signature beside
        // a verification.
        let (mut ops_a, sa) = session_ops(p, "pa", "lib", false);
        let (mut ops_b, sb) = session_ops(p, "pb", "lib", false);
        let (sign_a, sign_b) = (ops_a.pop().unwrap(), ops_b.pop().unwrap());
        for op in ops_a.into_iter().chain(ops_b) {
            w.exec(op);
        }
        let (va, vb) = (verify_op("pa", sa.id.is_some(), "new"), verify_op("pb", sb.id.is_some(), "new"));
        match i % 3 {
            0 => {
                w.exec(par(sign_a, sign_b, &par_order(p)));
                if w.slots.contains_key("pa.sig") && w.slots.contains_key("pb.sig") {
                    w.exec(par(va, vb, &par_order(p)));
                }
            }
            1 => {
                w.exec(sign_a.clone());
                w.exec(va.clone());
                w.exec(par(sign_a, sign_b, &par_order(p)));
                if w.slots.contains_key("pa.sig") && w.slots.contains_key("pb.sig") {
                    w.exec(par(va, vb, &par_order(p)));
                }
            }
            _ => {
                w.exec(sign_a);
                if w.slots.contains_key("pa.sig") {
                    w.exec(par(va.clone(), sign_b, &par_order(p)));
                    if w.slots.contains_key("pb.sig") {
                        w.exec(par(vb, va, &par_order(p)));
                    }
                }
            }
        }
        sink.done(w);
        return;
    }
    if p.chance(1, 3) {
        w.exec(json!({"op":"place.policy","seed":p.next_u64()}));
    }
    let nsess = p.range(1, 4);
    let mut queues = vec![];
    for k in 0..nsess {
        let signer = if p.chance(3, 10) { "ref" } else { "lib" };
        let by_lib = p.chance(1, 6);
        let pfx = format!("s{k}");
        let (mut ops, sess) = session_ops(p, &pfx, signer, by_lib);
        let via = if p.chance(1, 4) { "struct" } else { "new" };
        // when the key pair came from gen_keypair the pk slot is uncompressed, struct delivery is fine
        if p.chance(1, 5) {
            ops.extend(damaged_first(p, &verify_op(&pfx, sess.id.is_some(), via), "sig", 64));
        }
        ops.push(verify_op(&pfx, sess.id.is_some(), via));
        // history: the same key signs again (same message or another one) with a fresh script
        if p.chance(1, 4) {
            if p.chance(1, 2) {
                ops.push(set(&format!("{pfx}.msg"), &msg_class(p, 200)));
            }
            let idref: Value = if sess.id.is_some() { json!(format!("{pfx}.id")) } else { Value::Null };
            ops.push(json!({"op":"sm2.sign","impl":signer,"d":format!("{pfx}.d"),"id":idref,"msg":format!("{pfx}.msg"),"sig":format!("{pfx}.sig"),"rng":rng_json(&uniform_script(p, 1))}));
            ops.push(verify_op(&pfx, sess.id.is_some(), via));
        }
        queues.push(ops);
    }
    for op in interleave_par(p, queues) {
        w.exec(op);
    }
    if sink.samples.is_empty() {
        w.samples.push(json!({"schedule": w.history.iter().take(12).cloned().collect::<Vec<_>>() }));
    }
    sink.done(w);
}

/// Signatures made by an independent signer (OpenSSL, committed corpus): default ID and explicit ID.
fn openssl_signatures(w: &mut World) {
    let c = crate::gen_c19::corpus();
    for (i, it) in c["items"].as_array().unwrap().iter().enumerate() {
        let s = |x: &str| format!("ossl{i}.{x}");
        let kd = c["keys"].as_array().unwrap().iter().find(|k| k["name"] == it["key"]).unwrap();
        w.exec(set(&s("pk"), &hex::decode(kd["point"].as_str().unwrap()).unwrap()));
        w.exec(set(&s("msg"), &hex::decode(it["msg"].as_str().unwrap()).unwrap()));
        w.exec(set(&s("sig"), &hex::decode(it["sig"].as_str().unwrap()).unwrap()));
        // the OpenSSL CLI signs with the EMPTY distinguishing ID when none is given
        w.exec(set(&s("id"), b""));
        let r = w.exec(json!({"op":"sm2.verify","impl":"lib","pk":s("pk"),"id":s("id"),"msg":s("msg"),"sig":s("sig")}));
        w.bump(if r["class"] == "Ok" { "probe.corpus.openssl-signature-accepted" } else { "probe.corpus.openssl-signature-rejected" });
        w.exec(json!({"op":"assert.last","field":"class","equals":"Ok","property":"C03","oracle":"O3.4-openssl-signature","entry":"sm2.verify","class":"openssl","what":"OpenSSL signature (empty ID) not accepted"}));
        w.exec(set(&s("id"), it["id"].as_str().unwrap().as_bytes()));
        w.exec(set(&s("sig"), &hex::decode(it["sig_id"].as_str().unwrap()).unwrap()));
        w.exec(json!({"op":"sm2.verify","impl":"lib","pk":s("pk"),"id":s("id"),"msg":s("msg"),"sig":s("sig")}));
        w.exec(json!({"op":"assert.last","field":"class","equals":"Ok","property":"C03","oracle":"O3.4-openssl-signature","entry":"sm2.verify","class":"openssl","what":"OpenSSL signature (ID Alice@example) not accepted"}));
    }
}

/// The GM/T 0003.5 Annex A signature example as a scripted session (nonce through the seam).
static RARE_E: &str = include_str!("../../corpus/rare_e.json");

/// Messages whose digest e = SM3(ZA || M) falls into a 2^-32 window (corpus/rare_e.json, found at
/// development time by `gmsim find-rare-e`, about 2^32 hashes per entry): "e-plus-x1-wraps"
/// (e + x1 in [n, 2^256): the corner of r = (e + x1) mod n) and "s-below-2^224" (s + n still fits
/// 32 bytes, so the tampered (r, s + n) can be delivered: only the range check on s refuses it).
/// `tamper`: deliver (r, s + n) / (r + n, s) where they fit (C04) instead of signing (C03).
fn rare_digest_sessions(w: &mut World, tamper: bool) {
    let v: Value = serde_json::from_str(RARE_E).expect("rare_e.json");
    let n = n_sm2();
    let two256 = BigUint::from(1u32) << 256u32;
    for (j, e) in v.as_array().map(|a| a.as_slice()).unwrap_or(&[]).iter().enumerate() {
        let g = |f: &str| hex::decode(e[f].as_str().unwrap_or("")).unwrap_or_default();
        let s = |x: &str| format!("re{j}.{x}");
        let k = e["k"].as_str().unwrap_or("").to_string();
        w.exec(set(&s("d"), &g("d")));
        w.exec(json!({"op":"sm2.derive_pk","impl":"lib","d":s("d"),"pk":s("pk"),"comp":false}));
        w.exec(set(&s("id"), e["id"].as_str().unwrap_or("").as_bytes()));
        w.exec(set(&s("msg"), &g("msg")));
        w.bump(&format!("probe.rare-digest.{}", e["class"].as_str().unwrap_or("?")));
        if !tamper {
            w.exec(json!({"op":"sm2.sign","impl":"lib","d":s("d"),"id":s("id"),"msg":s("msg"),"sig":s("sig"),"rng":{"c":[k, k, k, k],"f":1}}));
            w.exec(json!({"op":"assert.eq","a":s("sig"),"hex":e["sig"].as_str().unwrap_or(""),"property":"C03","oracle":"O3.5-exact","entry":"sm2.sign","class":"rare-digest","what":"signature for a digest in a 2^-32 window of the modular addition differs from GB/T 32918.2"}));
            w.exec(json!({"op":"sm2.verify","impl":"lib","pk":s("pk"),"id":s("id"),"msg":s("msg"),"sig":s("sig")}));
        } else {
            let sig = g("sig");
            if sig.len() != 64 {
                continue;
            }
            w.exec(set(&s("sig"), &sig));
            w.exec(json!({"op":"sm2.verify","impl":"lib","pk":s("pk"),"id":s("id"),"msg":s("msg"),"sig":s("sig")}));
            for (pos, comp) in [(32usize, &sig[32..]), (0, &sig[..32])] {
                let plus = BigUint::from_bytes_be(comp) + &n;
                if plus < two256 {
                    w.bump("fault.component-plus-n-delivered");
                    w.exec(json!({"op":"copy","from":s("sig"),"to":s("bad")}));
                    w.exec(json!({"op":"fault","slot":s("bad"),"kind":"splice","pos":pos,"hex":hex::encode(be32(&plus))}));
                    w.exec(json!({"op":"sm2.verify","impl":"lib","pk":s("pk"),"id":s("id"),"msg":s("msg"),"sig":s("bad")}));
                }
            }
        }
    }
}

fn annex_sign_session(w: &mut World) {
    let d = hex::decode("3945208F7B2144B13F36E38AC6D39F95889393692860B51A42FB81EF4DF7C5B8").unwrap();
    let k = "59276e27d506861a16680f3ad9c02dccef3cc1fa3cdbe4ce6d54b80deac1bc21";
    w.exec(set("annex.d", &d));
    w.exec(json!({"op":"sm2.derive_pk","impl":"lib","d":"annex.d","pk":"annex.pk","comp":false}));
    w.exec(set("annex.id", b"1234567812345678"));
    w.exec(set("annex.msg", b"message digest"));
    w.exec(json!({"op":"sm2.sign","impl":"lib","d":"annex.d","id":"annex.id","msg":"annex.msg","sig":"annex.sig","rng":{"c":[k, k, k, k],"f":1}}));
    w.exec(json!({"op":"assert.eq","a":"annex.sig","hex":"f5a03b0648d2c4630eeac513e1bb81a15944da3827d5b74143ac7eaceee720b3b1b6aa29df212fd8763182bc0d421ca1bb9038fd1f7f42d4840b69c485bbc1aa","property":"C03","oracle":"annex-example","entry":"sm2.sign","class":"annex-example","what":"GM/T 0003.5 Annex A signature"}));
    w.exec(json!({"op":"sm2.verify","impl":"lib","pk":"annex.pk","id":"annex.id","msg":"annex.msg","sig":"annex.sig"}));
}

// ---------------------------------------------------------------------------------------------

fn fault(slot: &str, kind: &str, extra: Value) -> Value {
    let mut v = json!({"op":"fault","slot":slot,"kind":kind});
    if let Value::Object(m) = extra {
        for (k, x) in m {
            v[k] = x;
        }
    }
    v
}

/// C04: one sample (plus a bystander session for misdelivery / foreign keys), then every fault
/// of the menu on a fork of the world, each followed by the library's verification.
pub fn run_c04(p: &mut Prng, t: Tier, _i: usize, sink: &mut Sink) {
    let mut w = World::new();
    if _i == 0 {
        let mut r = World::new();
        rare_digest_sessions(&mut r, true);
        sink.done(r);
    }
    let signer = if p.chance(1, 3) { "ref" } else { "lib" };
    let (ops_a, a) = session_ops(p, "a", signer, false);
    let (ops_b, b) = session_ops(p, "b", "lib", false);
    for op in interleave_par(p, vec![ops_a, ops_b]) {
        w.exec(op);
    }
    let has_id = a.id.is_some();
    let via0 = "new";
    // pristine copies of what was sent: every faulted delivery is preceded and followed by the
    // genuine one (history: success -> tampered -> success), so state the verifier might keep
    // between calls is part of the schedule
    for x in ["pk", "msg", "sig"] {
        w.exec(json!({"op":"copy","from":format!("a.{x}"),"to":format!("a0.{x}")}));
    }
    if has_id {
        w.exec(json!({"op":"copy","from":"a.id","to":"a0.id"}));
    }
    let genuine = verify_op("a0", has_id, "new");
    // the unfaulted delivery first (must be accepted: C03 completeness rides along)
    {
        let mut f = w.fork();
        f.exec(verify_op("a", has_id, via0));
        sink.done(f);
    }
    let mut branches: Vec<Vec<Value>> = vec![];
    let v = |via: &str| verify_op("a", has_id, via);
    // every single-bit flip of r||s
    for bit in 0..512 {
        branches.push(vec![fault("a.sig", "flip", json!({"bit":bit})), v(via0)]);
    }
    // every length 0..=130
    for len in 0..64 {
        branches.push(vec![fault("a.sig", "truncate", json!({"len":len})), v(via0)]);
    }
    for extra in 1..=66usize {
        branches.push(vec![fault("a.sig", "extend", json!({"hex":hex::encode(vec![0u8; extra])})), v(via0)]);
        if extra <= 8 || extra % 8 == 0 {
            branches.push(vec![fault("a.sig", "extend", json!({"hex":hex::encode(p.bytes(extra))})), v(via0)]);
        }
    }
    branches.push(vec![fault("a.sig", "prepend", json!({"hex":"00"})), v(via0)]);
    // component substitutions
    let n = n_sm2();
    let max = (BigUint::from(1u32) << 256u32) - 1u32;
    let subs: Vec<BigUint> = vec![BigUint::from(0u32), BigUint::from(1u32), &n - 1u32, n.clone(), &n + 1u32, max];
    for pos in [0usize, 32] {
        for s in &subs {
            branches.push(vec![fault("a.sig", "splice", json!({"pos":pos,"hex":hex::encode(be32(s))})), v(via0)]);
        }
    }
    if let Some(sig) = w.slots.get("a.sig").cloned() {
        if sig.len() == 64 {
            let r = BigUint::from_bytes_be(&sig[..32]);
            let s = BigUint::from_bytes_be(&sig[32..]);
            // s := n - r  (r + s = n), r := n - s
            branches.push(vec![fault("a.sig", "splice", json!({"pos":32,"hex":hex::encode(be32(&((&n - &r) % &n)))})), v(via0)]);
            branches.push(vec![fault("a.sig", "splice", json!({"pos":0,"hex":hex::encode(be32(&((&n - &s) % &n)))})), v(via0)]);
            // r + n, s + n when they still fit 256 bits (same residue, out of range)
            for (pos, x) in [(0usize, &r), (32usize, &s)] {
                let y = x + &n;
                if y.bits() <= 256 {
                    branches.push(vec![fault("a.sig", "splice", json!({"pos":pos,"hex":hex::encode(be32(&y))})), v(via0)]);
                }
            }
            // r := s, s := r
            branches.push(vec![fault("a.sig", "splice", json!({"pos":0,"hex":hex::encode(&sig[32..])})), v(via0)]);
            branches.push(vec![fault("a.sig", "splice", json!({"pos":32,"hex":hex::encode(&sig[..32])})), v(via0)]);
        }
    }
    branches.push(vec![fault("a.sig", "swap_halves", json!({})), v(via0)]);
    // the same (r, s) in other framings: DER SEQUENCE{INTEGER r, INTEGER s} (the form certificates
    // and most other libraries use), text encodings, padded / length-prefixed parts. This API's
    // signature is r||s in 64 bytes and nothing else.
    let sig_now = w.slots.get("a.sig").cloned().unwrap_or_default();
    for (name, bytes) in reframings(&sig_now, &[(0, 32), (32, 64)]) {
        w.bump("fault.reframed");
        w.bump(&format!("probe.reframed.{name}"));
        branches.push(vec![set("a.sig", &bytes), v(via0)]);
    }
    // two-byte faults whose differences cancel under XOR / addition folding
    for _ in 0..24 {
        let (p1, p2) = (p.range(0, 63), p.range(0, 63));
        if p1 != p2 {
            branches.push(vec![fault("a.sig", "xorpair", json!({"pos1":p1,"pos2":p2,"val":1u8 << p.below(8)})), v(via0)]);
        }
    }
    // crafted by the key owner (who knows d): "signatures" for which [s]G + [t]P is the point at
    // infinity (k = 0) or for which [s]G and [t]P are the same point (s = t d), with r = e mod n.
    // GB/T 32918.2 B.5-B.7: no such pair is a valid signature.
    {
        let idb = a.id.clone().unwrap_or_else(|| b"1234567812345678".to_vec());
        let e = rsm2::with_curve(|c| rsm2::digest_e(c, &idb, &c.mul_g(&a.d), &a.msg));
        if let Some(e) = e {
            let r = &e % &n;
            let d = &a.d;
            let inv = |x: &BigUint| x.modpow(&(&n - 2u32), &n);
            // k = 0:  s (1 + d) + r d = 0
            let s0 = ((&n - (&r * d) % &n) % &n * inv(&((d + 1u32) % &n))) % &n;
            // [s]G == [t]P:  s = (r + s) d  =>  s (1 - d) = r d
            let one_minus_d = (&n + 1u32 - d) % &n;
            let s1 = ((&r * d) % &n * inv(&one_minus_d)) % &n;
            for (name, sv) in [("k-zero", s0), ("equal-points", s1)] {
                if r != BigUint::from(0u32) && sv != BigUint::from(0u32) {
                    let mut sig = be32(&r).to_vec();
                    sig.extend_from_slice(&be32(&sv));
                    w.bump(&format!("fault.crafted-{name}"));
                    branches.push(vec![set("a.sig", &sig), v(via0)]);
                }
            }
        }
    }
    // misdelivery: the bystander's signature, message, identity, key
    branches.push(vec![fault("a.sig", "copy", json!({"from":"b.sig"})), v(via0)]);
    branches.push(vec![fault("a.msg", "copy", json!({"from":"b.msg"})), v(via0)]);
    branches.push(vec![fault("a.pk", "copy", json!({"from":"b.pk"})), v(via0)]);
    // message faults
    let mlen = a.msg.len();
    if mlen > 0 {
        let bits: Vec<usize> = if mlen <= 32 { (0..mlen * 8).collect() } else { vec![0, 7, mlen * 4, mlen * 8 - 1] };
        for bit in bits {
            branches.push(vec![fault("a.msg", "flip", json!({"bit":bit})), v(via0)]);
        }
        branches.push(vec![fault("a.msg", "truncate", json!({"len":mlen - 1})), v(via0)]);
    }
    branches.push(vec![fault("a.msg", "extend", json!({"hex":"00"})), v(via0)]);
    // identity faults (the ID travels as context; None and the explicit default are the SAME id)
    let other_ids: Vec<Option<Vec<u8>>> = vec![None, Some(b"1234567812345678".to_vec()), Some(vec![]), Some(b"1234567812345679".to_vec()), b.id.clone()];
    for oid in other_ids {
        let mut ops = vec![];
        let mut vop = v(via0);
        match oid {
            None => vop["id"] = Value::Null,
            Some(x) => {
                ops.push(set("a.id2", &x));
                vop["id"] = json!("a.id2");
            }
        }
        ops.push(vop);
        branches.push(ops);
    }
    // public-key faults: -P, other encodings of the same key, off-curve, infinity
    if let Some(pkb) = w.slots.get("a.pk").cloned() {
        let pt = rsm2::with_curve(|c| c.decode_point(&pkb).ok().flatten());
        if pt.is_some() {
            let (neg, comp, unc) = rsm2::with_curve(|c| (c.encode_point(&c.neg(&pt), false), c.encode_point(&pt, true), c.encode_point(&pt, false)));
            branches.push(vec![set("a.pk", &neg), v("new")]);
            branches.push(vec![set("a.pk", &comp), v("new")]); // same key: must still verify
            branches.push(vec![set("a.pk", &unc), v("struct")]); // same key: must still verify
            let mut off = unc.clone();
            off[64] ^= 1;
            branches.push(vec![set("a.pk", &off), v("struct")]);
            branches.push(vec![set("a.pk", &off), v("new")]);
            branches.push(vec![v("inf")]);
            branches.push(vec![set("a.pk", &[]), v("new")]);
        }
    }
    // crafted invalid-curve key of order 2: Q = (x0, 0) is not on the SM2 curve, and [t]Q = O for every
    // even t under the curve-generic group law, so verification collapses to r == e + x([s]G): a
    // forgery without any private key unless the public key is checked against the curve equation
    {
        let idb = a.id.clone().unwrap_or_else(|| b"1234567812345678".to_vec());
        let x0 = BigUint::from(p.range(2, 1_000_000));
        let q = Some((x0.clone(), BigUint::from(0u32)));
        let qwire = {
            let mut v = vec![4u8];
            v.extend_from_slice(&be32(&x0));
            v.extend_from_slice(&[0u8; 32]);
            v
        };
        let e = rsm2::with_curve(|c| rsm2::digest_e(c, &idb, &q, &a.msg));
        if let Some(e) = e {
            for _ in 0..8 {
                let sv = (BigUint::from_bytes_be(&p.bytes32()) % (&n - 1u32)) + 1u32;
                let x1 = rsm2::with_curve(|c| c.mul_g(&sv)).unwrap().0;
                let r = (&e + &x1) % &n;
                let t = (&r + &sv) % &n;
                if r != BigUint::from(0u32) && !t.bit(0) && t != BigUint::from(0u32) {
                    let mut sig = be32(&r).to_vec();
                    sig.extend_from_slice(&be32(&sv));
                    w.bump("fault.crafted-order2-key");
                    branches.push(vec![set("a.pk", &qwire), set("a.sig", &sig), v("struct")]);
                    break;
                }
            }
        }
    }
    // seeded random (r, s)
    let nrand = t.pick(16, 64);
    for _ in 0..nrand {
        branches.push(vec![set("a.sig", &p.bytes(64)), v(via0)]);
    }
    for br in branches {
        let mut f = w.fork();
        f.exec(genuine.clone());
        for op in br {
            f.exec(op);
        }
        f.exec(genuine.clone());
        sink.done(f);
    }
    if sink.samples.is_empty() {
        w.samples.push(json!({"base_schedule": w.history, "then": "on a fork: genuine delivery, one fault of the menu, faulted delivery, genuine delivery again"}));
    }
    sink.done(w);
}
