//! Schedulers for the SM9 sessions: C09 (signatures), C10 (encryption), C17 (key exchange).
//! Parties (KGC, signer/encryptor/initiator, verifier/decryptor/responder) are played by the
//! library or the reference; fault samples are split into chunks over several runs.

use crate::gen_common::*;
use crate::libglue as glue;
use crate::ops_sm9::{g1_unwire, g2_unwire, g2_wire};
use crate::prng::Prng;
use crate::refmodel::sm3::{kdf, sm3_parts};
use crate::refmodel::sm9 as rsm9;
use crate::runner::{sample_prng, Sink, Tier};
use crate::simrng::{run_lib_norng, Outcome};
use crate::world::World;
use num_bigint::BigUint;
use num_traits::Zero;
use serde_json::{json, Value};

fn order() -> BigUint {
    rsm9::with(|s| s.n.clone())
}

pub fn sm9_id(p: &mut Prng) -> Vec<u8> {
    match p.below(8) {
        0 => b"Alice".to_vec(),
        1 => b"Bob".to_vec(),
        2 => vec![],
        3 => p.bytes(1),
        4 => p.bytes(300),
        6 => {
            // every length around the SM3 block boundaries of the H1 input
            let n = p.range(0, 140);
            p.bytes(n)
        }
        5 => {
            // text identity with surrounding white space (a legal, distinct identity)
            let mut v = b" ".to_vec();
            v.extend_from_slice(&ascii(p, 6));
            v.extend_from_slice(if p.chance(1, 2) { b"\n" } else { b" \t" });
            v
        }
        _ => {
            let n = p.range(1, 64);
            p.bytes(n)
        }
    }
}

/// One identity, or (one time in `den`) a pair of distinct identities that collide under a common
/// 32-bit string hash or weaker digest: (first, Some(second)).
fn id_or_colliding_pair(p: &mut Prng, w: &mut World, den: u64) -> (Vec<u8>, Option<Vec<u8>>) {
    if p.chance(1, den) {
        let t = id_collisions();
        let (fam, a, b) = &t[p.below(t.len() as u64) as usize];
        w.bump("history.colliding-identities");
        w.bump(&format!("probe.colliding-identities.{fam}"));
        if p.chance(1, 2) {
            (a.clone(), Some(b.clone()))
        } else {
            (b.clone(), Some(a.clone()))
        }
    } else {
        (sm9_id(p), None)
    }
}

fn pick_impl(p: &mut Prng, lib_num: u64, den: u64) -> &'static str {
    if p.chance(lib_num, den) {
        "lib"
    } else {
        "ref"
    }
}

fn fault(slot: &str, kind: &str, extra: Value) -> Value {
    let mut v = json!({"op":"fault","slot":slot,"kind":kind});
    if let Value::Object(m) = extra {
        for (k, x) in m {
            v[k] = x;
        }
    }
    v
}

/// master key + user key for `kind` in {sign, enc, exch}; slots <pfx>.k, <pfx>.pub, <pfx>.id, <pfx>.uk
fn setup_keys(p: &mut Prng, w: &mut World, pfx: &str, kind: &str, id: &[u8], fixed_master: Option<&str>) -> bool {
    setup_keys_ex(p, w, pfx, kind, id, fixed_master, true)
}

/// `allow_unusable`: whether the master key may be one for which extraction must refuse (fault
/// samples need a working key pair to enumerate faults on).
fn setup_keys_ex(p: &mut Prng, w: &mut World, pfx: &str, kind: &str, id: &[u8], fixed_master: Option<&str>, allow_unusable: bool) -> bool {
    let s = |x: &str| format!("{pfx}.{x}");
    let mkind = if kind == "sign" { "sign" } else { "enc" };
    match fixed_master {
        Some(h) => {
            w.exec(set(&s("k"), &hex::decode(h).unwrap()));
            w.exec(json!({"op":"sm9.master_pub","impl":"lib","kind":mkind,"k":s("k"),"pub":s("pub")}));
        }
        None => {
            if p.chance(1, 10) {
                // the master secret stands in a relation to THIS identity: equal to H1(ID||hid) (then
                // [h1]P + Ppub adds two equal points), its double, or its negative (h1 + k = 0: the
                // standard says such a master key must be replaced, extraction refuses)
                let hid = match kind {
                    "sign" => 1u8,
                    "enc" => 3,
                    _ => 2,
                };
                let h1 = rsm9::with(|s| s.h1(id, hid));
                let n = order();
                let (k, rel) = match p.below(4) {
                    0 | 1 => (h1.clone(), "equal"),
                    3 if allow_unusable => ((&n - &h1) % &n, "negative"),
                    _ => ((&h1 * 2u32) % &n, "double"),
                };
                w.bump(&format!("history.master-related-to-identity.{rel}"));
                w.exec(set(&s("k"), &be32(&k)));
                w.exec(json!({"op":"sm9.master_pub","impl":"lib","kind":mkind,"k":s("k"),"pub":s("pub")}));
            } else if p.chance(1, 3) {
                w.exec(json!({"op":"sm9.master","impl":pick_impl(p, 3, 4),"kind":mkind,"k":s("k"),"pub":s("pub"),"rng":rng_json(&uniform_script(p, 1))}));
            } else {
                let (k, _) = scalar_class(p, &order());
                w.exec(set(&s("k"), &be32(&k)));
                w.exec(json!({"op":"sm9.master_pub","impl":"lib","kind":mkind,"k":s("k"),"pub":s("pub")}));
            }
        }
    }
    w.exec(set(&s("id"), id));
    let r = w.exec(json!({"op":"sm9.extract","impl":pick_impl(p, 2, 3),"kind":kind,"k":s("k"),"pub":s("pub"),"id":s("id"),"out":s("uk")}));
    r.get("class").and_then(|c| c.as_str()) == Some("Ok") && w.slots.contains_key(&s("uk"))
}

// =============================================================================================
// C09

const C09_CHUNKS: usize = 8;
pub fn c09_sessions(t: Tier) -> usize {
    t.pick(150, 5000)
}
pub fn c09_samples(t: Tier) -> usize {
    t.pick(6, 200)
}
fn c09_par(t: Tier) -> usize {
    t.pick(10, 60)
}
pub fn isolated_c09(t: Tier, i: usize) -> bool {
    i >= 1 + c09_sessions(t) + c09_samples(t) * C09_CHUNKS && (i % 2 == 0 || i + 1 == runs_c09(t))
}
fn c09_soak_n(t: Tier) -> usize {
    t.pick(1100, 70_000)
}
pub fn runs_c09(t: Tier) -> usize {
    1 + c09_sessions(t) + c09_samples(t) * C09_CHUNKS + c09_par(t) + 1
}

/// Two signers (different master keys) on two caller threads, then two verifiers.
fn c09_concurrent(p: &mut Prng, w: &mut World) {
    let (ida, idb) = (sm9_id(p), sm9_id(p));
    if !setup_keys(p, w, "pa", "sign", &ida, None) || !setup_keys(p, w, "pb", "sign", &idb, None) {
        return;
    }
    for pfx in ["pa", "pb"] {
        let len = p.range(0, 64);
        w.exec(set(&format!("{pfx}.msg"), &msg_of_len(p, len)));
    }
    let sop = |pfx: &str, p: &mut Prng| -> Value {
        let s = |x: &str| format!("{pfx}.{x}");
        json!({"op":"sm9.sign","impl":"lib","ds":s("uk"),"ppubs":s("pub"),"id":s("id"),"msg":s("msg"),"sig":s("sig"),"rng":rng_json(&uniform_script(p, 1))})
    };
    let (a, b) = (sop("pa", p), sop("pb", p));
    if p.chance(1, 3) {
        // one signer and its verifier have been at work before (a hit beside a miss)
        w.exec(a.clone());
        if w.slots.contains_key("pa.sig") {
            w.exec(sm9_verify_op("pa", true));
        }
    }
    w.exec(par(a, b, &par_order(p)));
    if w.slots.contains_key("pa.sig") && w.slots.contains_key("pb.sig") {
        w.exec(par(sm9_verify_op("pa", true), sm9_verify_op("pb", true), &par_order(p)));
    }
}

fn sm9_sign_ops(w: &mut World, pfx: &str, signer: &str, script: Value) {
    let s = |x: &str| format!("{pfx}.{x}");
    w.exec(json!({"op":"sm9.sign","impl":signer,"ds":s("uk"),"ppubs":s("pub"),"id":s("id"),"msg":s("msg"),"sig":s("sig"),"rng":script}));
}
fn sm9_verify_op(pfx: &str, ref_on_reject: bool) -> Value {
    let s = |x: &str| format!("{pfx}.{x}");
    json!({"op":"sm9.verify","impl":"lib","ppubs":s("pub"),"id":s("id"),"msg":s("msg"),"sig":s("sig"),"ref_on_reject":ref_on_reject})
}

pub fn run_c09(p: &mut Prng, t: Tier, i: usize, sink: &mut Sink) {
    let mut w = World::new();
    if i == 0 {
        // GM/T 0044.5 Annex A signature example
        if setup_keys(p, &mut w, "annex", "sign", b"Alice", Some("000130E78459D78545CB54C587E02CF480CE0B66340F319F348A1D5B1F2DC5F4")) {
            w.exec(set("annex.msg", b"Chinese IBS standard"));
            sm9_sign_ops(&mut w, "annex", "lib", json!({"c":vec!["00033c8616b06704813203dfd00965022ed15975c662337aed648835dc4b1cbe"; 4],"f":1}));
            w.exec(json!({"op":"assert.eq","a":"annex.sig","hex":"823c4b21e4bd2dfe1ed92c606653e996668563152fc33f55d7bfbb9bd9705adb0473bf96923ce58b6ad0e13e9643a406d8eb98417c50ef1b29cef9adb48b6d598c856712f1c2e0968ab7769f42a99586aed139d5b8b3e15891827cc2aced9baa05","property":"C09","oracle":"annex-example","entry":"sm9.sign","class":"annex-example","what":"GM/T 0044.5 Annex A signature"}));
            w.exec(sm9_verify_op("annex", true));
        }
        sink.done(w);
        return;
    }
    let nsess = c09_sessions(t);
    if i <= nsess {
        let (id, other) = id_or_colliding_pair(p, &mut w, 6);
        if setup_keys(p, &mut w, "s", "sign", &id, None) {
            let mlen = if p.chance(1, 2) { *p.pick(&[0usize, 1, 31, 32, 55, 56, 64, 255, 1024]) } else { p.range(0, 1024) };
            w.exec(set("s.msg", &msg_of_len(p, mlen)));
            sm9_sign_ops(&mut w, "s", pick_impl(p, 2, 3), rng_json(&classy_script(p, &order())));
            if w.slots.contains_key("s.sig") {
                // history "damaged first": the verifier's first contact with this master key and
                // identity is a damaged signature (S off the curve, h changed, ...)
                if p.chance(1, 4) {
                    w.bump("history.damaged-first");
                    for op in damaged_first(p, &sm9_verify_op("s", true), "sig", 97) {
                        w.exec(op);
                    }
                }
                w.exec(sm9_verify_op("s", true));
            }
            // history: a second identity under the same master key, then the first one again
            if other.is_some() || p.chance(1, 4) {
                let id2 = other.clone().unwrap_or_else(|| sm9_id(p));
                w.exec(set("s.id2", &id2));
                let r = w.exec(json!({"op":"sm9.extract","impl":pick_impl(p, 2, 3),"kind":"sign","k":"s.k","pub":"s.pub","id":"s.id2","out":"s.uk2"}));
                if r.get("class").and_then(|c| c.as_str()) == Some("Ok") {
                    w.exec(json!({"op":"sm9.sign","impl":"lib","ds":"s.uk2","ppubs":"s.pub","id":"s.id2","msg":"s.msg","sig":"s.sig2","rng":rng_json(&uniform_script(p, 1))}));
                    if w.slots.contains_key("s.sig2") {
                        w.exec(json!({"op":"sm9.verify","impl":"lib","ppubs":"s.pub","id":"s.id2","msg":"s.msg","sig":"s.sig2","ref_on_reject":true}));
                        // cross: each signature under the other identity must be refused
                        w.exec(json!({"op":"sm9.verify","impl":"lib","ppubs":"s.pub","id":"s.id","msg":"s.msg","sig":"s.sig2"}));
                    }
                }
                sm9_sign_ops(&mut w, "s", "lib", rng_json(&uniform_script(p, 1)));
                w.exec(sm9_verify_op("s", true));
            }
        }
        if i == 1 {
            w.samples.push(json!({"schedule": w.history.clone()}));
        }
        sink.done(w);
        return;
    }
    if i + 1 == runs_c09(t) {
        // long history: more distinct identities than a 2^10 (thorough: 2^16) entry table holds
        w.exec(json!({"op":"sm9.soak","kind":"verify","n":c09_soak_n(t),"seed":p.next_u64()}));
        sink.done(w);
        return;
    }
    if i >= 1 + nsess + c09_samples(t) * C09_CHUNKS {
        c09_concurrent(p, &mut w);
        sink.done(w);
        return;
    }
    // fault enumeration: sample `sidx`, chunk `chunk`
    let j = i - nsess - 1;
    let (sidx, chunk) = (j / C09_CHUNKS, j % C09_CHUNKS);
    let mut sp = sample_prng("C09-sample", sidx);
    let id = sm9_id(&mut sp);
    if !setup_keys_ex(&mut sp, &mut w, "a", "sign", &id, None, false) {
        sink.done(w);
        return;
    }
    let mlen = sp.range(0, 64);
    w.exec(set("a.msg", &msg_of_len(&mut sp, mlen)));
    sm9_sign_ops(&mut w, "a", pick_impl(&mut sp, 2, 3), rng_json(&uniform_script(&mut sp, 1)));
    // bystander with its own master key (misdelivery, foreign master public key)
    let idb = sm9_id(&mut sp);
    let have_b = setup_keys(&mut sp, &mut w, "b", "sign", &idb, None);
    if have_b {
        w.exec(set("b.msg", &msg_of_len(&mut sp, 8)));
        sm9_sign_ops(&mut w, "b", "lib", rng_json(&uniform_script(&mut sp, 1)));
    }
    let sig = match w.slots.get("a.sig").cloned() {
        Some(s) if s.len() == 97 => s,
        _ => {
            sink.done(w);
            return;
        }
    };
    let v = || sm9_verify_op("a", false);
    for x in ["pub", "id", "msg", "sig"] {
        w.exec(json!({"op":"copy","from":format!("a.{x}"),"to":format!("a0.{x}")}));
    }
    let genuine9 = sm9_verify_op("a0", false);
    let mut branches: Vec<Vec<Value>> = vec![];
    // every bit of h and of S's coordinates
    for bit in (0..256).chain(264..97 * 8) {
        branches.push(vec![fault("a.sig", "flip", json!({"bit":bit})), v()]);
    }
    let n = order();
    let max = (BigUint::from(1u32) << 256u32) - 1u32;
    for h in [BigUint::from(0u32), BigUint::from(1u32), &n - 2u32, &n - 1u32, n.clone(), &n + 1u32, max] {
        branches.push(vec![fault("a.sig", "splice", json!({"pos":0,"hex":hex::encode(be32(&h))})), v()]);
    }
    // h + N when it fits (same residue, out of range)
    let hv = BigUint::from_bytes_be(&sig[..32]) + &n;
    if hv.bits() <= 256 {
        branches.push(vec![fault("a.sig", "splice", json!({"pos":0,"hex":hex::encode(be32(&hv))})), v()]);
    }
    // S := other curve points, infinity-like encodings
    if let Some(spt) = g1_unwire(&sig[32..]).flatten() {
        let spt = Some(spt);
        let (dbl, neg, gen) = rsm9::with(|s| (s.g1_bytes(&s.g1_add(&spt, &spt)), s.g1_bytes(&s.g1_neg(&spt)), s.g1_bytes(&s.g1)));
        for alt in [dbl, neg, gen] {
            branches.push(vec![fault("a.sig", "splice", json!({"pos":32,"hex":hex::encode(alt)})), v()]);
        }
        branches.push(vec![fault("a.sig", "splice", json!({"pos":33,"hex":hex::encode([0u8; 64])})), v()]);
    }
    // the same (h, S) in other framings: GM/T 0044 DER SEQUENCE{OCTET STRING h, BIT STRING S}, text
    // encodings, other wrappings
    {
        let mut forms = reframings(&sig, &[(0, 32), (32, sig.len())]);
        let body = [crate::refmodel::der::tlv(0x04, &sig[..32]), crate::refmodel::der::tlv(0x03, &[&[0u8][..], &sig[32..]].concat())].concat();
        forms.push(("gmt0044-der", crate::refmodel::der::tlv(0x30, &body)));
        for (name, bytes) in forms {
            w.bump("fault.reframed");
            w.bump(&format!("probe.reframed.{name}"));
            branches.push(vec![set("a.sig", &bytes), v()]);
        }
    }
    // message / identity / master public key changed; misdelivery
    if mlen > 0 {
        branches.push(vec![fault("a.msg", "flip", json!({"bit":0})), v()]);
        branches.push(vec![fault("a.msg", "truncate", json!({"len":mlen - 1})), v()]);
    }
    branches.push(vec![fault("a.msg", "extend", json!({"hex":"00"})), v()]);
    branches.push(vec![fault("a.id", "extend", json!({"hex":"00"})), v()]);
    // the alterations of an identity that happen in practice: surrounding white space, case
    for ws in ["20", "0a", "0d0a", "09"] {
        branches.push(vec![fault("a.id", "extend", json!({"hex":ws})), v()]);
        branches.push(vec![fault("a.id", "prepend", json!({"hex":ws})), v()]);
    }
    if !id.is_empty() {
        branches.push(vec![fault("a.id", "flip", json!({"bit":id.len() * 8 - 1})), v()]);
        branches.push(vec![fault("a.id", "xorbyte", json!({"pos":0,"val":0x20})), v()]);
    }
    if have_b {
        branches.push(vec![fault("a.sig", "copy", json!({"from":"b.sig"})), v()]);
        branches.push(vec![fault("a.pub", "copy", json!({"from":"b.pub"})), v()]);
        branches.push(vec![fault("a.id", "copy", json!({"from":"b.id"})), v()]);
    }
    for _ in 0..4 {
        let mut r = sp.bytes(97);
        r[32] = 4;
        branches.push(vec![set("a.sig", &r), v()]);
    }
    // the way S is handed over: another Jacobian representation of the genuine S (must still
    // verify), the point at infinity (must be refused, not crash), an off-curve S in Jacobian form
    {
        let z = hex::encode(sp.bytes(31));
        let mut g = sm9_verify_op("a", true);
        g["s_form"] = json!(format!("jac:01{z}"));
        branches.push(vec![g]);
        let mut inf = v();
        inf["s_form"] = json!("infinity");
        branches.push(vec![inf]);
        let mut off = v();
        off["s_form"] = json!(format!("jac:02{z}"));
        branches.push(vec![fault("a.sig", "xorbyte", json!({"pos":96,"val":1})), off]);
    }
    if chunk == 0 {
        let mut f = w.fork();
        f.exec(sm9_verify_op("a", true));
        sink.done(f);
        if sidx == 0 {
            w.samples.push(json!({"base_schedule": w.history.clone(), "then":"each fault of the menu on a fork, followed by sm9.verify"}));
        }
    }
    for (bi, br) in branches.into_iter().enumerate() {
        if bi % C09_CHUNKS != chunk {
            continue;
        }
        let mut f = w.fork();
        // history on a quarter of the branches (and on every non-bit-flip fault): genuine
        // delivery before and after the faulted one
        let hist = bi % 4 == 0 || bi >= 768;
        if hist {
            f.exec(genuine9.clone());
        }
        for op in br {
            f.exec(op);
        }
        if hist {
            f.exec(genuine9.clone());
        }
        sink.done(f);
    }
    if chunk == 0 {
        sink.done(w);
    }
}

// =============================================================================================
// C10

const C10_CHUNKS: usize = 8;
pub fn c10_sessions(t: Tier) -> usize {
    t.pick(300, 8000)
}
pub fn c10_samples(t: Tier) -> usize {
    t.pick(8, 300)
}
fn c10_par(t: Tier) -> usize {
    t.pick(12, 72)
}
pub fn isolated_c10(t: Tier, i: usize) -> bool {
    i >= 2 + c10_sessions(t) + c10_samples(t) * C10_CHUNKS && (i % 2 == 0 || i + 1 == runs_c10(t))
}
pub fn runs_c10(t: Tier) -> usize {
    2 + c10_sessions(t) + c10_samples(t) * C10_CHUNKS + c10_par(t) + 1
}

/// Two encryptions by two caller threads (different master keys, or one master key and two
/// identities), interleaved at the RNG seam in a seeded order; then both are decrypted.
/// Many callers at once: 18 encryptions (more than a 16-way striped or sharded structure has
/// stripes) under two master keys, each to its own recipient, one simulated caller thread each.
/// Every ciphertext is compared with GM/T 0044.4 for the r its caller drew.
fn c10_many_callers(p: &mut Prng, w: &mut World) {
    let n = 18;
    for m in ["ma", "mb"] {
        let (k, _) = scalar_class(p, &order());
        w.exec(set(&format!("{m}.k"), &be32(&k)));
        w.exec(json!({"op":"sm9.master_pub","impl":"ref","kind":"enc","k":format!("{m}.k"),"pub":format!("{m}.pub")}));
    }
    let mut ops = vec![];
    for j in 0..n {
        let m = if j % 2 == 0 { "ma" } else { "mb" };
        w.exec(set(&format!("c{j}.id"), &ascii(p, 5)));
        w.exec(set(&format!("c{j}.msg"), &p.bytes(12)));
        ops.push(json!({"op":"sm9.encrypt","impl":"lib","ppube":format!("{m}.pub"),"id":format!("c{j}.id"),"msg":format!("c{j}.msg"),"ct":format!("c{j}.ct"),"rng":rng_json(&uniform_script(p, 1))}));
    }
    w.exec(par_n(ops, &par_order_n(p, n)));
    w.bump("history.many-callers");
}

fn c10_concurrent(p: &mut Prng, w: &mut World) {
    let same_master = p.chance(1, 3);
    let ida = sm9_id(p);
    let idb = sm9_id(p);
    if !setup_keys(p, w, "pa", "enc", &ida, None) {
        return;
    }
    if same_master {
        w.exec(json!({"op":"copy","from":"pa.k","to":"pb.k"}));
        w.exec(json!({"op":"copy","from":"pa.pub","to":"pb.pub"}));
        w.exec(set("pb.id", &idb));
        let r = w.exec(json!({"op":"sm9.extract","impl":"ref","kind":"enc","k":"pb.k","pub":"pb.pub","id":"pb.id","out":"pb.uk"}));
        if r.get("class").and_then(|c| c.as_str()) != Some("Ok") {
            return;
        }
    } else if !setup_keys(p, w, "pb", "enc", &idb, None) {
        return;
    }
    for pfx in ["pa", "pb"] {
        let len = p.range(1, 64);
        w.exec(set(&format!("{pfx}.msg"), &msg_of_len(p, len)));
    }
    let (ea, eb) = (sm9_enc_op("pa", "lib", rng_json(&uniform_script(p, 1))), sm9_enc_op("pb", "lib", rng_json(&uniform_script(p, 1))));
    if p.chance(1, 3) {
        // one recipient has been encrypted to (and has decrypted) before (a hit beside a miss)
        w.exec(ea.clone());
        if w.slots.contains_key("pa.ct") {
            w.exec(sm9_dec_op("pa", true));
        }
    }
    w.exec(par(ea, eb, &par_order(p)));
    for pfx in ["pa", "pb"] {
        if w.slots.contains_key(&format!("{pfx}.ct")) {
            w.exec(sm9_dec_op(pfx, true));
            round_trip_check(w, pfx, 0);
        }
    }
    // and two decryptions side by side (no scheduling points inside: they run one after the other)
    w.exec(par(sm9_dec_op("pa", true), sm9_dec_op("pb", true), &par_order(p)));
}

/// Points of G1 with a coordinate at the edge of the field: x in {0..5, p-1..p-6} where x^3+5 is a
/// square (both roots). p = 5 mod 8: square roots by Atkin's method.
fn edge_points_g1() -> Vec<(BigUint, BigUint)> {
    let p = rsm9::with(|s| s.p.clone());
    let sqrt = |a: &BigUint| -> Option<BigUint> {
        if a.is_zero() {
            return Some(BigUint::zero());
        }
        let r = a.modpow(&((&p + 3u32) >> 3), &p);
        if (&r * &r) % &p == *a {
            return Some(r);
        }
        let r2 = (&r * BigUint::from(2u32).modpow(&((&p - 1u32) >> 2), &p)) % &p;
        if (&r2 * &r2) % &p == *a {
            Some(r2)
        } else {
            None
        }
    };
    let mut out = vec![];
    let mut xs: Vec<BigUint> = (0u32..6).map(BigUint::from).collect();
    xs.extend((1u32..7).map(|k| &p - k));
    for x in xs {
        let rhs = (&x * &x * &x + 5u32) % &p;
        if let Some(y) = sqrt(&rhs) {
            if !y.is_zero() {
                out.push((x.clone(), &p - &y));
            }
            out.push((x, y));
        }
    }
    // p - 1 first: (p-1, 2) and (p-1, p-2)
    out.sort_by_key(|(x, _)| if *x == &p - 1u32 { 0 } else { 1 });
    out
}

fn sm9_enc_op(pfx: &str, imp: &str, script: Value) -> Value {
    let s = |x: &str| format!("{pfx}.{x}");
    json!({"op":"sm9.encrypt","impl":imp,"ppube":s("pub"),"id":s("id"),"msg":s("msg"),"ct":s("ct"),"rng":script})
}
fn sm9_dec_op(pfx: &str, ref_on_reject: bool) -> Value {
    let s = |x: &str| format!("{pfx}.{x}");
    json!({"op":"sm9.decrypt","impl":"lib","de":s("uk"),"ppube":s("pub"),"id":s("id"),"ct":s("ct"),"out":s("pt"),"ref_on_reject":ref_on_reject})
}

fn round_trip_check(w: &mut World, pfx: &str, _tag: u64) {
    w.exec(json!({"op":"assert.eq","a":format!("{pfx}.pt"),"b":format!("{pfx}.msg"),"property":"C10","oracle":"O10.1-round-trip","entry":"sm9.encrypt+decrypt","class":"round-trip","what":"decrypt(encrypt(M)) != M"}));
}

pub fn run_c10(p: &mut Prng, t: Tier, i: usize, sink: &mut Sink) {
    let mut w = World::new();
    if i == 0 {
        if setup_keys(p, &mut w, "annex", "enc", b"Bob", Some("0001EDEE3778F441F8DEA3D9FA0ACC4E07EE36C93F9A08618AF4AD85CEDE1C22")) {
            w.exec(set("annex.msg", b"Chinese IBE standard"));
            w.exec(sm9_enc_op("annex", "lib", json!({"c":vec!["0000aac0541779c8fc45e3e2cb25c12b5d2576b2129ae8bb5ee2cbe5ec9e785c"; 4],"f":1})));
            w.exec(json!({"op":"assert.eq","a":"annex.ct","hex":"042445471164490618e1ee20528ff1d545b0f14c8bcaa44544f03dab5dac07d8ff42ffca97d57cddc05ea405f2e586feb3a6930715532b8000759f13059ed59ac0ba672387bcd6de5016a158a52bb2e7fc429197bcab70b25afee37a2b9db9f3671b5f5b0e951489682f3e64e1378cdd5da9513b1c","property":"C10","oracle":"annex-example","entry":"sm9.encrypt","class":"annex-example","what":"GM/T 0044.5 Annex A ciphertext"}));
            w.exec(sm9_dec_op("annex", true));
            // the annex ciphertext itself, as an independent encryptor would send it
            w.exec(set("annex.ct", &hex::decode("042445471164490618E1EE20528FF1D545B0F14C8BCAA44544F03DAB5DAC07D8FF42FFCA97D57CDDC05EA405F2E586FEB3A6930715532B8000759F13059ED59AC0BA672387BCD6DE5016A158A52BB2E7FC429197BCAB70B25AFEE37A2B9DB9F3671B5F5B0E951489682F3E64E1378CDD5DA9513B1C").unwrap()));
            w.exec(sm9_dec_op("annex", true));
        }
        sink.done(w);
        return;
    }
    if i == 1 {
        rare_k1_zero_session(p, &mut w);
        sink.done(w);
        return;
    }
    let nsess = c10_sessions(t);
    if i - 2 < nsess {
        let (id, other) = id_or_colliding_pair(p, &mut w, 6);
        if p.chance(1, 3) {
            w.exec(json!({"op":"place.policy","seed":p.next_u64()}));
        }
        if setup_keys(p, &mut w, "s", "enc", &id, None) {
            let len = ((i - 2) % 255) + 1; // every length 1..=255 across a batch
            w.exec(set("s.msg", &msg_of_len(p, len)));
            // history across protocols: an exchange step (hid 02) with the same identity first
            if p.chance(1, 4) {
                w.bump("history.exchange-before-encrypt");
                w.exec(json!({"op":"sm9.kex.1a","impl":"lib","ppube":"s.pub","idb":"s.id","out_ra":"s.wra","out_r":"s.wr","rng":rng_json(&uniform_script(p, 1))}));
            }
            w.exec(sm9_enc_op("s", pick_impl(p, 2, 3), rng_json(&classy_script(p, &order()))));
            if w.slots.contains_key("s.ct") {
                if p.chance(1, 4) {
                    w.bump("history.damaged-first");
                    for op in damaged_first(p, &sm9_dec_op("s", true), "ct", 98) {
                        w.exec(op);
                    }
                }
                w.exec(sm9_dec_op("s", true));
                round_trip_check(&mut w, "s", i as u64);
            }
            // history: another identity under the same master key in between, then the first again
            if other.is_some() || p.chance(1, 4) {
                let id2 = other.clone().unwrap_or_else(|| sm9_id(p));
                w.exec(set("s.id2", &id2));
                w.exec(json!({"op":"sm9.encrypt","impl":"lib","ppube":"s.pub","id":"s.id2","msg":"s.msg","ct":"s.ct2","rng":rng_json(&uniform_script(p, 1))}));
                // a ciphertext for the other identity must not open with this identity's key
                if w.slots.contains_key("s.ct2") {
                    w.exec(json!({"op":"sm9.decrypt","impl":"lib","de":"s.uk","ppube":"s.pub","id":"s.id","ct":"s.ct2"}));
                    // ... and must open with the other identity's own key
                    let r = w.exec(json!({"op":"sm9.extract","impl":"ref","kind":"enc","k":"s.k","pub":"s.pub","id":"s.id2","out":"s.uk2"}));
                    if r.get("class").and_then(|c| c.as_str()) == Some("Ok") {
                        w.exec(json!({"op":"sm9.decrypt","impl":"lib","de":"s.uk2","ppube":"s.pub","id":"s.id2","ct":"s.ct2","out":"s.pt2","ref_on_reject":true}));
                        w.exec(json!({"op":"assert.eq","a":"s.pt2","b":"s.msg","needs":["s.ct2"],"property":"C10","oracle":"O10.1-round-trip","entry":"sm9.encrypt+decrypt","class":"round-trip","what":"decrypt(encrypt(M)) != M for the second identity"}));
                    }
                }
                w.exec(sm9_enc_op("s", "lib", rng_json(&uniform_script(p, 1))));
                w.slots.remove("s.pt");
                w.exec(sm9_dec_op("s", true));
                round_trip_check(&mut w, "s", i as u64 + 1_000_000);
            }
        }
        if i == 2 {
            w.samples.push(json!({"schedule": w.history.clone()}));
        }
        sink.done(w);
        return;
    }
    if i + 1 == runs_c10(t) {
        // long history: more distinct recipients than a 2^10 (thorough: 2^16) entry table holds
        w.exec(json!({"op":"sm9.soak","kind":"encrypt","n":t.pick(1100, 70_000),"seed":p.next_u64()}));
        sink.done(w);
        return;
    }
    if i >= 2 + nsess + c10_samples(t) * C10_CHUNKS {
        if i % 3 == 0 {
            c10_many_callers(p, &mut w);
        } else {
            c10_concurrent(p, &mut w);
        }
        sink.done(w);
        return;
    }
    let j = i - 2 - nsess;
    let (sidx, chunk) = (j / C10_CHUNKS, j % C10_CHUNKS);
    let mut sp = sample_prng("C10-sample", sidx);
    let id = sm9_id(&mut sp);
    if !setup_keys_ex(&mut sp, &mut w, "a", "enc", &id, None, false) {
        sink.done(w);
        return;
    }
    let mlen = *sp.pick(&[1usize, 2, 16, 31, 32, 33]);
    let msg = msg_of_len(&mut sp, mlen);
    w.exec(set("a.msg", &msg));
    w.exec(sm9_enc_op("a", pick_impl(&mut sp, 2, 3), rng_json(&uniform_script(&mut sp, 1))));
    let ct = match w.slots.get("a.ct").cloned() {
        Some(c) => c,
        None => {
            sink.done(w);
            return;
        }
    };
    let d = || sm9_dec_op("a", false);
    for x in ["uk", "pub", "id", "ct"] {
        w.exec(json!({"op":"copy","from":format!("a.{x}"),"to":format!("a0.{x}")}));
    }
    let genuine10 = {
        let mut g = sm9_dec_op("a0", false);
        g["out"] = json!("a0.pt");
        g
    };
    let mut branches: Vec<Vec<Value>> = vec![];
    for bit in 0..ct.len() * 8 {
        branches.push(vec![fault("a.ct", "flip", json!({"bit":bit})), d()]);
    }
    for len in 0..ct.len() {
        branches.push(vec![fault("a.ct", "truncate", json!({"len":len})), d()]);
    }
    for extra in [1usize, 32, 255, 256, 300] {
        branches.push(vec![fault("a.ct", "extend", json!({"hex":hex::encode(sp.bytes(extra))})), d()]);
    }
    // two-byte faults whose differences cancel under a folded comparison (C3 = bytes 65..97)
    for _ in 0..32 {
        let (a, b) = (65 + sp.range(0, 31), 65 + sp.range(0, 31));
        if a != b {
            branches.push(vec![fault("a.ct", "xorpair", json!({"pos1":a,"pos2":b,"val":1u8 << sp.below(8)})), d()]);
        }
    }
    for _ in 0..8 {
        let (a, b) = (65 + sp.range(0, 31), 97 + sp.range(0, mlen - 1));
        branches.push(vec![fault("a.ct", "xorpair", json!({"pos1":a,"pos2":b,"val":1u8 << sp.below(8)})), d()]);
    }
    // the same three components in the other framing (C1||C2||C3), and C3/C2 exchanged in place
    {
        let mut alt = ct[..65].to_vec();
        alt.extend_from_slice(&ct[97..]);
        alt.extend_from_slice(&ct[65..97]);
        w.bump("fault.rearranged-framing");
        branches.push(vec![set("a.ct", &alt), d()]);
    }
    // the same ciphertext in other framings: GM/T 0044 DER SEQUENCE{INTEGER EnType, BIT STRING C1,
    // OCTET STRING C3, OCTET STRING C2}, text encodings, other wrappings
    {
        use crate::refmodel::der::tlv;
        let mut forms = reframings(&ct, &[(0, 65), (65, 97), (97, ct.len())]);
        let body = [tlv(0x02, &[0u8]), tlv(0x03, &[&[0u8][..], &ct[..65]].concat()), tlv(0x04, &ct[65..97]), tlv(0x04, &ct[97..])].concat();
        forms.push(("gmt0044-der", tlv(0x30, &body)));
        for (name, bytes) in forms {
            w.bump("fault.reframed");
            w.bump(&format!("probe.reframed.{name}"));
            branches.push(vec![set("a.ct", &bytes), d()]);
        }
    }
    // different identity at the receiver
    branches.push(vec![fault("a.id", "extend", json!({"hex":"00"})), d()]);
    for ws in ["20", "0a", "0d0a", "09"] {
        branches.push(vec![fault("a.id", "extend", json!({"hex":ws})), d()]);
        branches.push(vec![fault("a.id", "prepend", json!({"hex":ws})), d()]);
    }
    if !id.is_empty() {
        branches.push(vec![fault("a.id", "flip", json!({"bit":0})), d()]);
        branches.push(vec![fault("a.id", "truncate", json!({"len":id.len() - 1})), d()]);
    }
    // C1 := other valid points
    if let Some(c1) = g1_unwire(&ct[..65]).flatten() {
        let c1 = Some(c1);
        let (dbl, neg, gen) = rsm9::with(|s| (s.g1_bytes(&s.g1_add(&c1, &c1)), s.g1_bytes(&s.g1_neg(&c1)), s.g1_bytes(&s.g1)));
        for alt in [dbl, neg, gen] {
            branches.push(vec![fault("a.ct", "splice", json!({"pos":0,"hex":hex::encode(alt)})), d()]);
        }
        for pre in [0u8, 2, 3, 5, 6, 7, 0xff] {
            branches.push(vec![fault("a.ct", "setbyte", json!({"pos":0,"val":pre})), d()]);
        }
    }
    let mut crafted: Vec<Vec<Value>> = vec![];
    // crafted: off-curve C1 with K, C2, C3 consistent for the victim (adversary knows de and uses the
    // victim's own pairing arithmetic through the verification wrapper). Both MAC constructions.
    if chunk == 0 {
        let dew = w.slots.get("a.uk").cloned().unwrap();
        for _ in 0..3 {
            let pp = rsm9::with(|s| s.p.clone());
            let x = BigUint::from_bytes_be(&sp.bytes32()) % &pp;
            let y = BigUint::from_bytes_be(&sp.bytes32()) % &pp;
            if rsm9::with(|s| s.g1_on_curve(&Some((x.clone(), y.clone())))) {
                continue;
            }
            let c1w = rsm9::with(|s| s.g1_bytes(&Some((x.clone(), y.clone()))));
            let out = run_lib_norng(|| {
                let de = glue::sm9_twist_from_ref(&g2_unwire(&dew).unwrap());
                let c1 = glue::sm9_point_struct(&x, &y);
                gm_sm9::points::verif_pairing_bytes(&de, &c1)
            });
            let wbytes = match out {
                Outcome::Done(b) => b,
                _ => continue,
            };
            let k = kdf(&[&c1w[1..], &wbytes[..], &id[..]].concat(), msg.len() + 32);
            let (k1, k2) = k.split_at(msg.len());
            let c2: Vec<u8> = msg.iter().zip(k1).map(|(a, b)| a ^ b).collect();
            let mac_std = sm3_parts(&[&c2, k2]);
            let mac_hmac = hmac_sm3(k2, &c2);
            for mac in [mac_std.to_vec(), mac_hmac.to_vec()] {
                let mut c = c1w.clone();
                c.extend_from_slice(&mac);
                c.extend_from_slice(&c2);
                w.bump("fault.crafted-offcurve-C1");
                crafted.push(vec![set("a.ct", &c), d()]);
            }
        }
    }
    // crafted "zero point": C1 = 04||00..00. A decoder that maps it to infinity gets w = e(O, de) = 1,
    // so K is computable by anyone; both MAC constructions
    if chunk == 0 {
        let one_bytes = rsm9::with(|s| s.f_bytes(&s.f_one()));
        let c1w = {
            let mut v = vec![4u8];
            v.extend_from_slice(&[0u8; 64]);
            v
        };
        let k = kdf(&[&c1w[1..], &one_bytes[..], &id[..]].concat(), msg.len() + 32);
        let (k1, k2) = k.split_at(msg.len());
        let c2: Vec<u8> = msg.iter().zip(k1).map(|(a, b)| a ^ b).collect();
        for mac in [sm3_parts(&[&c2, k2]).to_vec(), hmac_sm3(k2, &c2).to_vec()] {
            let mut c = c1w.clone();
            c.extend_from_slice(&mac);
            c.extend_from_slice(&c2);
            w.bump("fault.crafted-zero-point");
            crafted.push(vec![set("a.ct", &c), d()]);
        }
    }
    // crafted: the same C1 sent with x + p (non-canonical, fits 256 bits for ~40 % of points) and
    // K, C2, C3 recomputed over the bytes as sent: only a coordinate-range check refuses it
    if chunk == 0 {
        let dew = w.slots.get("a.uk").cloned().unwrap();
        if let (Some(c1), Some(de)) = (g1_unwire(&ct[..65]).flatten(), g2_unwire(&dew)) {
            let pp = rsm9::with(|s| s.p.clone());
            let xw = &c1.0 + &pp;
            if xw.bits() <= 256 {
                let wv = rsm9::with(|s| s.pairing(&Some(c1.clone()), &de).map(|f| s.f_bytes(&f)));
                if let Some(wbytes) = wv {
                    let mut c1w = vec![4u8];
                    c1w.extend_from_slice(&be32(&xw));
                    c1w.extend_from_slice(&be32(&c1.1));
                    let k = kdf(&[&c1w[1..], &wbytes[..], &id[..]].concat(), msg.len() + 32);
                    let (k1, k2) = k.split_at(msg.len());
                    let c2: Vec<u8> = msg.iter().zip(k1).map(|(a, b)| a ^ b).collect();
                    for mac in [sm3_parts(&[&c2, k2]).to_vec(), hmac_sm3(k2, &c2).to_vec()] {
                        let mut c = c1w.clone();
                        c.extend_from_slice(&mac);
                        c.extend_from_slice(&c2);
                        w.bump("fault.crafted-coordinate-ge-p");
                        crafted.push(vec![set("a.ct", &c), d()]);
                    }
                }
            }
        }
    }
    // crafted, CONFORMING: C1 a point of G1 with a coordinate at the edge of [0, p-1] (x = p-1 gives
    // y = +-2; small x and x near p where x^3 + 5 is a square), K, C2, C3 derived as the standard
    // says with w = e(C1, de). Every curve point is in G1 (prime order), so a conforming decryptor
    // must open it: the completeness oracle is on.
    if chunk == 0 {
        let dew = w.slots.get("a.uk").cloned().unwrap();
        if let Some(de) = g2_unwire(&dew) {
            let edge = edge_points_g1();
            let take = t.pick(4, edge.len());
            for j in 0..take {
                let c1 = edge[(sidx * 4 + j) % edge.len()].clone();
                let wv = rsm9::with(|s| s.pairing(&Some(c1.clone()), &de).map(|f| s.f_bytes(&f)));
                if let Some(wbytes) = wv {
                    let c1w = rsm9::with(|s| s.g1_bytes(&Some(c1.clone())));
                    let k = kdf(&[&c1w[1..], &wbytes[..], &id[..]].concat(), msg.len() + 32);
                    let (k1, k2) = k.split_at(msg.len());
                    if k1.iter().all(|b| *b == 0) {
                        continue;
                    }
                    let c2: Vec<u8> = msg.iter().zip(k1).map(|(a, b)| a ^ b).collect();
                    let mut c = c1w.clone();
                    c.extend_from_slice(&sm3_parts(&[&c2, k2]));
                    c.extend_from_slice(&c2);
                    w.bump("fault.crafted-conforming-edge-C1");
                    crafted.push(vec![set("a.ct", &c), sm9_dec_op("a", true), json!({"op":"assert.eq","a":"a.pt","b":"a.msg","property":"C10","oracle":"O10.3-conforming-ciphertext-opens","entry":"sm9.decrypt","class":"edge-coordinate-C1","what":"a conforming ciphertext whose C1 has an edge coordinate does not open to M"})]);
                }
            }
        }
    }
    if chunk == 0 {
        let mut f = w.fork();
        f.exec(sm9_dec_op("a", true));
        round_trip_check(&mut f, "a", sidx as u64);
        sink.done(f);
        if sidx == 0 {
            w.samples.push(json!({"base_schedule": w.history.clone(), "then":"each fault of the menu on a fork, followed by sm9.decrypt"}));
        }
    }
    for br in crafted {
        // computed (and therefore executed) by chunk 0 only
        let mut f = w.fork();
        for op in br {
            f.exec(op);
        }
        sink.done(f);
    }
    let nflips = ct.len() * 8;
    for (bi, br) in branches.into_iter().enumerate() {
        if bi % C10_CHUNKS != chunk {
            continue;
        }
        let mut f = w.fork();
        let hist = bi % 4 == 0 || bi >= nflips;
        if hist {
            f.exec(genuine10.clone());
        }
        for op in br {
            f.exec(op);
        }
        if hist {
            // after a rejected ciphertext the genuine one must still open (completeness oracle on)
            let mut g = genuine10.clone();
            g["ref_on_reject"] = json!(true);
            f.exec(g);
        }
        sink.done(f);
    }
    if chunk == 0 {
        sink.done(w);
    }
}

fn hmac_sm3(key: &[u8], msg: &[u8]) -> [u8; 32] {
    let mut k = [0u8; 64];
    if key.len() > 64 {
        k[..32].copy_from_slice(&crate::refmodel::sm3::sm3(key));
    } else {
        k[..key.len()].copy_from_slice(key);
    }
    let ipad: Vec<u8> = k.iter().map(|b| b ^ 0x36).collect();
    let opad: Vec<u8> = k.iter().map(|b| b ^ 0x5c).collect();
    let inner = sm3_parts(&[&ipad, msg]);
    sm3_parts(&[&opad, &inner])
}

/// 1-byte message and an r for which K1 = 00: GM/T 0044.4 step A6 says go back and pick another r.
fn rare_k1_zero_session(p: &mut Prng, w: &mut World) {
    let id = b"Bob".to_vec();
    if !setup_keys(p, w, "r", "enc", &id, Some("0001EDEE3778F441F8DEA3D9FA0ACC4E07EE36C93F9A08618AF4AD85CEDE1C22")) {
        return;
    }
    let ppube = w.slots.get("r.pub").cloned().unwrap();
    let pp = g1_unwire(&ppube).unwrap();
    let g = rsm9::with(|s| s.pairing(&pp, &s.g2)).unwrap();
    let n = order();
    let k1_zero = |r: &BigUint| -> bool {
        rsm9::with(|s| {
            let qb = s.g1_add(&s.g1_mul(&s.h1(&id, 3), &s.g1), &pp);
            let c1 = s.g1_bytes(&s.g1_mul(r, &qb));
            let wv = s.f_pow(&g, r);
            kdf(&[&c1[1..], &s.f_bytes(&wv)[..], &id[..]].concat(), 1)[0] == 0
        })
    };
    let mut bad = None;
    for _ in 0..3000 {
        let r = (BigUint::from_bytes_be(&p.bytes32()) % (&n - 1u32)) + 1u32;
        if k1_zero(&r) {
            bad = Some(r);
            break;
        }
    }
    let bad = match bad {
        Some(b) => b,
        None => return,
    };
    w.bump("probe.sm9.k1-zero-r-found");
    let good = loop {
        let r = (BigUint::from_bytes_be(&p.bytes32()) % (&n - 1u32)) + 1u32;
        if !k1_zero(&r) {
            break r;
        }
    };
    w.exec(set("r.msg", &[0xa5]));
    w.exec(sm9_enc_op("r", "lib", json!({"c":[hex::encode(be32(&bad)), hex::encode(be32(&good))],"f":p.next_u64()})));
    if w.slots.contains_key("r.ct") {
        w.exec(sm9_dec_op("r", true));
    }
    // a non-conforming encryptor used the bad r: C2 = M, C3 = MAC(K2, C2). GM/T 0044.4 B3: reject.
    let (c1, k) = rsm9::with(|s| {
        let qb = s.g1_add(&s.g1_mul(&s.h1(&id, 3), &s.g1), &pp);
        let c1 = s.g1_bytes(&s.g1_mul(&bad, &qb));
        let wv = s.f_pow(&g, &bad);
        let k = kdf(&[&c1[1..], &s.f_bytes(&wv)[..], &id[..]].concat(), 33);
        (c1, k)
    });
    let c2 = [0xa5u8 ^ k[0]];
    for mac in [sm3_parts(&[&c2, &k[1..]]).to_vec(), hmac_sm3(&k[1..], &c2).to_vec()] {
        let mut ct = c1.clone();
        ct.extend_from_slice(&mac);
        ct.extend_from_slice(&c2);
        w.exec(set("r.ct", &ct));
        w.exec(sm9_dec_op("r", true));
    }
}

// =============================================================================================
// C17

pub fn c17_sessions(t: Tier) -> usize {
    t.pick(60, 3000)
}
pub fn c17_samples(t: Tier) -> usize {
    t.pick(4, 40)
}
fn c17_faults_per_sample(t: Tier) -> usize {
    // bits of R_A and R_B (every 8th in quick, all in thorough) + substitutions
    let bits = t.pick(65, 520);
    2 * (bits + 4)
}
pub fn runs_c17(t: Tier) -> usize {
    1 + c17_sessions(t) + c17_samples(t) * c17_faults_per_sample(t) + 1 + c17_par(t)
}

/// klen = 1 and an r_B for which the derived key byte is 00 (probability 2^-8 per r_B): GM/T 0044.3
/// has no "try again" step, the library has one on the responder side and a loop on the
/// initiator side. Session 1: library responder offered the bad r_B first. Session 2: library
/// initiator facing a conforming responder that used the bad r_B (shared key 00).
fn rare_zero_key_run(p: &mut Prng, w: &mut World) {
    let (ida, idb) = (b"Alice".to_vec(), b"Bob".to_vec());
    let master = "0002E65B0762D042F51F0D23542B13ED8CFA2E9A0E7206361E013A283905E31F";
    if !setup_keys(p, w, "k", "exch", &ida, Some(master)) {
        return;
    }
    w.exec(set("k.idb", &idb));
    w.exec(json!({"op":"sm9.extract","impl":"ref","kind":"exch","k":"k.k","pub":"k.pub","id":"k.idb","out":"k.ukb"}));
    let (ppube, deb) = match (w.slots.get("k.pub").cloned(), w.slots.get("k.ukb").cloned()) {
        (Some(a), Some(b)) => (a, b),
        _ => return,
    };
    let pp = g1_unwire(&ppube).unwrap();
    let de_b = g2_unwire(&deb).unwrap();
    let n = order();
    let ra = (BigUint::from_bytes_be(&p.bytes32()) % (&n - 1u32)) + 1u32;
    let (ra_pt, g, e_peer) = rsm9::with(|s| {
        let ra_pt = s.kex_r_point(&pp, &idb, &ra);
        let g = s.pairing(&pp, &s.g2).unwrap();
        let e_peer = s.pairing(&ra_pt, &de_b).unwrap();
        (ra_pt, g, e_peer)
    });
    let key_byte = |rb: &BigUint| -> u8 {
        rsm9::with(|s| {
            let rb_pt = s.kex_r_point(&pp, &ida, rb);
            let mut z = Vec::new();
            z.extend_from_slice(&ida);
            z.extend_from_slice(&idb);
            z.extend_from_slice(&s.g1_bytes(&ra_pt)[1..]);
            z.extend_from_slice(&s.g1_bytes(&rb_pt)[1..]);
            z.extend_from_slice(&s.f_bytes(&e_peer));
            z.extend_from_slice(&s.f_bytes(&s.f_pow(&g, rb)));
            z.extend_from_slice(&s.f_bytes(&s.f_pow(&e_peer, rb)));
            kdf(&z, 1)[0]
        })
    };
    let mut bad = None;
    let mut good = None;
    for _ in 0..8000 {
        let rb = (BigUint::from_bytes_be(&p.bytes32()) % (&n - 1u32)) + 1u32;
        if key_byte(&rb) == 0 {
            bad = Some(rb);
            break;
        } else if good.is_none() {
            good = Some(rb);
        }
    }
    let (bad, good) = match (bad, good) {
        (Some(b), Some(g)) => (b, g),
        _ => return,
    };
    w.bump("probe.sm9.kex.zero-key-rB-found");
    let h = |x: &BigUint| hex::encode(be32(x));
    // --- session 1: reference initiator, library responder offered the bad r_B first
    w.exec(json!({"op":"sm9.kex.1a","impl":"ref","ppube":"k.pub","idb":"k.idb","out_ra":"m1.ra","out_r":"a.store.r","rng":{"c":[h(&ra)],"f":1}}));
    w.exec(json!({"op":"copy","from":"m1.ra","to":"a.store.ra"}));
    let r2 = w.exec(json!({"op":"sm9.kex.1b","impl":"lib","ppube":"k.pub","ida":"k.id","idb":"k.idb","de":"k.ukb","ra":"m1.ra","klen":1,"out_rb":"m2.rb","out_sk":"b.sk","conform":true,"rng":{"c":[h(&bad), h(&good)],"f":2}}));
    if r2.get("class").and_then(|c| c.as_str()) == Some("Ok") {
        w.exec(json!({"op":"copy","from":"m2.rb","to":"b.store.rb"}));
        w.exec(json!({"op":"sm9.kex.2a","impl":"ref","ppube":"k.pub","ida":"k.id","idb":"k.idb","de":"k.uk","r":"a.store.r","ra":"a.store.ra","rb":"m2.rb","klen":1,"out_sk":"a.sk"}));
        let ska: Value = if w.slots.contains_key("a.sk") { json!("a.sk") } else { Value::Null };
        w.exec(json!({"op":"sm9.kex.end","ska":ska,"skb":"b.sk","ra_sent":"a.store.ra","ra_delivered":"m1.ra","rb_sent":"b.store.rb","rb_delivered":"m2.rb"}));
    }
    // --- session 2: library initiator, conforming (reference) responder that used the bad r_B
    for s in ["m1.ra", "m2.rb", "a.sk", "b.sk", "a.store.r", "a.store.ra", "b.store.rb"] {
        w.slots.remove(s);
    }
    let r1 = w.exec(json!({"op":"sm9.kex.1a","impl":"lib","ppube":"k.pub","idb":"k.idb","out_ra":"m1.ra","out_r":"a.store.r","rng":{"c":[h(&ra)],"f":3}}));
    if r1.get("class").and_then(|c| c.as_str()) != Some("Ok") {
        return;
    }
    w.exec(json!({"op":"copy","from":"m1.ra","to":"a.store.ra"}));
    w.exec(json!({"op":"sm9.kex.1b","impl":"ref","ppube":"k.pub","ida":"k.id","idb":"k.idb","de":"k.ukb","ra":"m1.ra","klen":1,"out_rb":"m2.rb","out_sk":"b.sk","rng":{"c":[h(&bad)],"f":4}}));
    if w.slots.contains_key("m2.rb") {
        w.exec(json!({"op":"copy","from":"m2.rb","to":"b.store.rb"}));
        w.exec(json!({"op":"sm9.kex.2a","impl":"lib","ppube":"k.pub","ida":"k.id","idb":"k.idb","de":"k.uk","r":"a.store.r","ra":"a.store.ra","rb":"m2.rb","klen":1,"out_sk":"a.sk","conform":true}));
        let ska: Value = if w.slots.contains_key("a.sk") { json!("a.sk") } else { Value::Null };
        w.exec(json!({"op":"sm9.kex.end","ska":ska,"skb":"b.sk","ra_sent":"a.store.ra","ra_delivered":"m1.ra","rb_sent":"b.store.rb","rb_delivered":"m2.rb"}));
    }
}

struct KexPlan {
    impl_a: &'static str,
    impl_b: &'static str,
    /// (message: 0 = R_A, 1 = R_B; fault op without slot)
    tamper: Option<(usize, Value)>,
    conform: bool,
}

fn kex_session(p: &mut Prng, w: &mut World, plan: &KexPlan, fixed: Option<(&str, &str, &str)>) {
    let (ida, idb) = if fixed.is_some() {
        (b"Alice".to_vec(), b"Bob".to_vec())
    } else {
        let a = sm9_id(p);
        // relation between inputs: the same identity on both sides, one a prefix of the other, or
        // two identities that collide under a common 32-bit string hash
        match p.below(10) {
            0 => (a.clone(), a),
            1 => {
                let mut b = a.clone();
                b.extend_from_slice(&p.bytes(1));
                (a, b)
            }
            2 | 3 if plan.tamper.is_none() => {
                let (x, y) = id_or_colliding_pair(p, w, 1);
                (x, y.unwrap())
            }
            _ => {
                let b = sm9_id(p);
                (a, b)
            }
        }
    };
    let klen = if fixed.is_some() {
        16
    } else if p.chance(1, 3) {
        *p.pick(&[1usize, 16, 31, 32, 33, 64, 96, 128, 255, 256, 257, 8161, 65536, 70000])
    } else {
        p.range(1, 128)
    };
    if !setup_keys_ex(p, w, "k", "exch", &ida, fixed.map(|f| f.0), plan.tamper.is_none()) {
        return;
    }
    // second user key under the same master
    w.exec(set("k.idb", &idb));
    let r = w.exec(json!({"op":"sm9.extract","impl":pick_impl(p, 2, 3),"kind":"exch","k":"k.k","pub":"k.pub","id":"k.idb","out":"k.ukb"}));
    if r.get("class").and_then(|c| c.as_str()) != Some("Ok") {
        return;
    }
    let script = |p: &mut Prng, h: Option<&str>| -> Value {
        match h {
            Some(h) => json!({"c":[h.to_lowercase(), h.to_lowercase(), h.to_lowercase(), h.to_lowercase()],"f":3}),
            None => rng_json(&classy_script(p, &order())),
        }
    };
    // history across protocols: the same master public key and identity were used for an
    // encryption (hid 03) just before the exchange (hid 02)
    if fixed.is_none() && plan.tamper.is_none() && p.chance(1, 3) {
        w.bump("history.encrypt-before-exchange");
        w.exec(set("k.wmsg", &p.bytes(9)));
        for idslot in ["k.idb", "k.id"] {
            w.exec(json!({"op":"sm9.encrypt","impl":"lib","ppube":"k.pub","id":idslot,"msg":"k.wmsg","ct":"k.wct","rng":rng_json(&uniform_script(p, 1))}));
        }
    }
    let r1 = w.exec(json!({"op":"sm9.kex.1a","impl":plan.impl_a,"ppube":"k.pub","idb":"k.idb","out_ra":"m1.ra","out_r":"a.store.r","rng":script(p, fixed.map(|f| f.1))}));
    if r1.get("class").and_then(|c| c.as_str()) != Some("Ok") {
        return;
    }
    w.exec(json!({"op":"copy","from":"m1.ra","to":"a.store.ra"}));
    if let Some((0, f)) = &plan.tamper {
        let mut f = f.clone();
        f["slot"] = json!("m1.ra");
        w.exec(f);
    }
    // points are handed over the way callers really do it: half of the time as the un-normalised
    // Jacobian struct the library itself returned (modelled as a random representation)
    let form = |p: &mut Prng| -> String {
        if fixed.is_none() && p.chance(1, 2) {
            format!("jac:01{}", hex::encode(p.bytes(31)))
        } else {
            "affine".to_string()
        }
    };
    let ra_form = form(p);
    let rb_form = form(p);
    let r2 = w.exec(json!({"op":"sm9.kex.1b","impl":plan.impl_b,"ppube":"k.pub","ida":"k.id","idb":"k.idb","de":"k.ukb","ra":"m1.ra","ra_form":ra_form,"klen":klen,"out_rb":"m2.rb","out_sk":"b.sk","conform":plan.conform,"rng":script(p, fixed.map(|f| f.2))}));
    let b_ok = r2.get("class").and_then(|c| c.as_str()) == Some("Ok");
    if b_ok {
        w.exec(json!({"op":"copy","from":"m2.rb","to":"b.store.rb"}));
        if let Some((1, f)) = &plan.tamper {
            let mut f = f.clone();
            f["slot"] = json!("m2.rb");
            w.exec(f);
        }
        w.exec(json!({"op":"sm9.kex.2a","impl":plan.impl_a,"ppube":"k.pub","ida":"k.id","idb":"k.idb","de":"k.uk","r":"a.store.r","ra":"a.store.ra","rb":"m2.rb","rb_form":rb_form,"klen":klen,"out_sk":"a.sk","conform":plan.conform}));
    }
    let opt = |w: &World, s: &str| -> Value {
        if w.slots.contains_key(s) {
            json!(s)
        } else {
            Value::Null
        }
    };
    let (ska, skb, rbs, rbd) = (opt(w, "a.sk"), opt(w, "b.sk"), opt(w, "b.store.rb"), opt(w, "m2.rb"));
    w.exec(json!({"op":"sm9.kex.end","ska":ska,"skb":skb,"ra_sent":"a.store.ra","ra_delivered":"m1.ra","rb_sent":rbs,"rb_delivered":rbd}));
}

/// Two honest exchanges under two master keys advance in lock step; the two calls of each step are
/// made by two simulated caller threads.
fn c17_concurrent(p: &mut Prng, w: &mut World) {
    let klen = p.range(1, 64);
    for pfx in ["u", "v"] {
        let (ida, idb) = (sm9_id(p), sm9_id(p));
        if !setup_keys_ex(p, w, pfx, "exch", &ida, None, false) {
            return;
        }
        w.exec(set(&format!("{pfx}.idb"), &idb));
        let r = w.exec(json!({"op":"sm9.extract","impl":"ref","kind":"exch","k":format!("{pfx}.k"),"pub":format!("{pfx}.pub"),"id":format!("{pfx}.idb"),"out":format!("{pfx}.ukb")}));
        if r.get("class").and_then(|c| c.as_str()) != Some("Ok") {
            return;
        }
    }
    let step = |pfx: &str, k: usize, p: &mut Prng| -> Value {
        let s = |x: &str| format!("{pfx}.{x}");
        match k {
            1 => json!({"op":"sm9.kex.1a","impl":"lib","ppube":s("pub"),"idb":s("idb"),"out_ra":s("m1.ra"),"out_r":s("a.r"),"rng":rng_json(&uniform_script(p, 1))}),
            2 => json!({"op":"sm9.kex.1b","impl":"lib","ppube":s("pub"),"ida":s("id"),"idb":s("idb"),"de":s("ukb"),"ra":s("m1.ra"),"klen":klen,"out_rb":s("m2.rb"),"out_sk":s("b.sk"),"rng":rng_json(&uniform_script(p, 1))}),
            _ => json!({"op":"sm9.kex.2a","impl":"lib","ppube":s("pub"),"ida":s("id"),"idb":s("idb"),"de":s("uk"),"r":s("a.r"),"ra":s("m1.ra"),"rb":s("m2.rb"),"klen":klen,"out_sk":s("a.sk"),"conform":true}),
        }
    };
    for k in 1..=3 {
        let (a, b) = (step("u", k, p), step("v", k, p));
        w.exec(par(a, b, &par_order(p)));
        if !(w.slots.contains_key("u.m1.ra") && w.slots.contains_key("v.m1.ra")) || (k >= 2 && !(w.slots.contains_key("u.m2.rb") && w.slots.contains_key("v.m2.rb"))) {
            break;
        }
    }
    for pfx in ["u", "v"] {
        let s = |x: &str| format!("{pfx}.{x}");
        let opt = |w: &World, n: String| -> Value { if w.slots.contains_key(&n) { json!(n) } else { Value::Null } };
        if w.slots.contains_key(&s("m1.ra")) {
            let (ska, skb, rb) = (opt(w, s("a.sk")), opt(w, s("b.sk")), opt(w, s("m2.rb")));
            w.exec(json!({"op":"sm9.kex.end","ska":ska,"skb":skb,"ra_sent":s("m1.ra"),"ra_delivered":s("m1.ra"),"rb_sent":rb.clone(),"rb_delivered":rb}));
        }
    }
}

fn c17_par(t: Tier) -> usize {
    t.pick(10, 60)
}
pub fn isolated_c17(t: Tier, i: usize) -> bool {
    i >= runs_c17(t) - c17_par(t) && i % 2 == 0
}

pub fn run_c17(p: &mut Prng, t: Tier, i: usize, sink: &mut Sink) {
    let mut w = World::new();
    if i >= runs_c17(t) - c17_par(t) {
        c17_concurrent(p, &mut w);
        sink.done(w);
        return;
    }
    let t_runs_without_par = runs_c17(t) - c17_par(t);
    if i == 0 {
        let plan = KexPlan { impl_a: "lib", impl_b: "lib", tamper: None, conform: true };
        kex_session(
            p,
            &mut w,
            &plan,
            Some((
                "0002E65B0762D042F51F0D23542B13ED8CFA2E9A0E7206361E013A283905E31F",
                "00005879DD1D51E175946F23B1B41E93BA31C584AE59A426EC1046A4D03B06C8",
                "00018B98C44BEF9F8537FB7D071B2C928B3BC65BD3D69E1EEE213564905634FE",
            )),
        );
        w.exec(json!({"op":"assert.eq","a":"a.sk","hex":"c5c13a8f59a97cdeae64f16a2272a9e7","property":"C17","oracle":"annex-example","entry":"sm9.kex","class":"annex-example","what":"GM/T 0044.5 Annex A SK"}));
        sink.done(w);
        return;
    }
    if i + 1 == t_runs_without_par {
        rare_zero_key_run(p, &mut w);
        sink.done(w);
        return;
    }
    let nsess = c17_sessions(t);
    if i <= nsess {
        let (a, b) = match p.below(4) {
            0 => ("lib", "ref"),
            1 => ("ref", "lib"),
            _ => ("lib", "lib"),
        };
        let plan = KexPlan { impl_a: a, impl_b: b, tamper: None, conform: true };
        kex_session(p, &mut w, &plan, None);
        if i == 1 {
            w.samples.push(json!({"schedule": w.history.clone()}));
        }
        sink.done(w);
        return;
    }
    let j = i - nsess - 1;
    let per = c17_faults_per_sample(t);
    let (sidx, fidx) = (j / per, j % per);
    let half = per / 2;
    let (msg, k) = (fidx / half, fidx % half);
    let nbits = half - 4;
    let stride = 520 / nbits;
    let f = if k < nbits {
        json!({"op":"fault","kind":"flip","bit": (8 + k * stride + (sidx % stride.max(1))).min(519)})
    } else {
        match k - nbits {
            0 => {
                // another valid point
                let mut sp2 = sample_prng("C17-subst", sidx * 7 + msg);
                let kk = (BigUint::from_bytes_be(&sp2.bytes32()) % (order() - 1u32)) + 1u32;
                let alt = rsm9::with(|s| s.g1_bytes(&s.g1_mul(&kk, &s.g1)));
                json!({"op":"fault","kind":"replace","hex":hex::encode(alt)})
            }
            1 => json!({"op":"fault","kind":"splice","pos":1,"hex":hex::encode([0u8; 64])}),
            2 => json!({"op":"fault","kind":"xorbyte","pos":64,"val":1}),
            _ => json!({"op":"fault","kind":"splice","pos":1,"hex":hex::encode(rsm9::with(|s| be32(&s.p)))}),
        }
    };
    // the same sample for all its faults
    let mut sp = sample_prng("C17-sample", sidx);
    let plan = KexPlan { impl_a: "lib", impl_b: "lib", tamper: Some((msg, f)), conform: false };
    kex_session(&mut sp, &mut w, &plan, None);
    if sidx == 0 && fidx == 3 {
        w.samples.push(json!({"schedule": w.history.clone()}));
    }
    sink.done(w);
    let _ = g2_wire;
}
