//! Scheduler for C08: request histories on ZUC generator objects. Exhaustive part: every
//! composition of every total <= 12 (and each with a zero-length request inserted at every
//! position) for the official and one random (key, iv); seeded part: several generators
//! interleaved, request sizes from a per-run law, streams up to 2^16 / 2^20 words.

use crate::gen_common::{par, par_order};
use crate::prng::Prng;
use crate::runner::{Sink, Tier};
use crate::world::World;
use serde_json::{json, Value};

pub const EXHAUSTIVE_PAIRS: usize = 4;

pub fn runs_c08(t: Tier) -> usize {
    EXHAUSTIVE_PAIRS + t.pick(1500, 60000) + c08_par(t)
}

fn official(i: usize, p: &mut Prng) -> ([u8; 16], [u8; 16]) {
    match i {
        0 => ([0; 16], [0; 16]),
        1 => ([0xff; 16], [0xff; 16]),
        2 => (
            [0x3d, 0x4c, 0x4b, 0xe9, 0x6a, 0x82, 0xfd, 0xae, 0xb5, 0x8f, 0x64, 0x1d, 0xb1, 0x7b, 0x45, 0x5b],
            [0x84, 0x31, 0x9a, 0xa8, 0xde, 0x69, 0x15, 0xca, 0x1f, 0x6b, 0xda, 0x6b, 0xfb, 0xd8, 0xc7, 0x66],
        ),
        _ => {
            let mut k = [0u8; 16];
            let mut v = [0u8; 16];
            k.copy_from_slice(&p.bytes(16));
            v.copy_from_slice(&p.bytes(16));
            (k, v)
        }
    }
}

fn key_iv_class(p: &mut Prng) -> ([u8; 16], [u8; 16]) {
    let pick = |p: &mut Prng| -> [u8; 16] {
        let mut a = [0u8; 16];
        match p.below(6) {
            0 => {}
            1 => a = [0xff; 16],
            2 => a[p.below(16) as usize] = 1 << p.below(8),
            _ => a.copy_from_slice(&p.bytes(16)),
        }
        a
    };
    if p.chance(1, 10) {
        let i = p.below(3) as usize;
        return official(i, p);
    }
    (pick(p), pick(p))
}

fn new_op(obj: &str, k: &[u8; 16], iv: &[u8; 16]) -> Value {
    json!({"op":"zuc.new","obj":obj,"key":hex::encode(k),"iv":hex::encode(iv)})
}
fn req_op(obj: &str, n: usize) -> Value {
    json!({"op":"zuc.req","obj":obj,"n":n})
}

fn run_history(sink: &mut Sink, k: &[u8; 16], iv: &[u8; 16], parts: &[usize], sample: bool) {
    let mut w = World::new();
    w.exec(new_op("g", k, iv));
    for n in parts {
        w.exec(req_op("g", *n));
    }
    if sample && sink.samples.is_empty() {
        w.samples.push(json!({"key":hex::encode(k),"iv":hex::encode(iv),"requests":parts}));
    }
    w.bump("history.exhaustive");
    sink.done(w);
}

fn exhaustive(p: &mut Prng, pair: usize, sink: &mut Sink) {
    let (k, iv) = official(pair, p);
    for total in 1..=12usize {
        // compositions of `total` <-> subsets of the total-1 cut points
        for mask in 0u32..(1 << (total - 1)) {
            let mut parts = vec![];
            let mut cur = 1usize;
            for c in 0..total - 1 {
                if mask & (1 << c) != 0 {
                    parts.push(cur);
                    cur = 1;
                } else {
                    cur += 1;
                }
            }
            parts.push(cur);
            run_history(sink, &k, &iv, &parts, total == 5 && mask == 5);
            for pos in 0..=parts.len() {
                let mut q = parts.clone();
                q.insert(pos, 0);
                run_history(sink, &k, &iv, &q, false);
            }
        }
    }
    // the empty history and lone zero-length requests
    run_history(sink, &k, &iv, &[0], false);
    run_history(sink, &k, &iv, &[0, 0, 1], false);
}

fn c08_par(t: Tier) -> usize {
    t.pick(12, 240)
}
pub fn isolated_c08(t: Tier, i: usize) -> bool {
    i >= runs_c08(t) - c08_par(t)
}

/// In a worker process of its own: the FIRST requests of two generators are made by two simulated
/// caller threads (sizes from 1 to 4096 words, so that whatever the library prepares lazily on a
/// first small, long or very long request is prepared by two callers at once), then each stream
/// continues and is compared word for word as always.
fn first_requests_side_by_side(p: &mut Prng, w: &mut World) {
    for g in 0..2 {
        let (k, iv) = key_iv_class(p);
        w.exec(new_op(&format!("g{g}"), &k, &iv));
    }
    let size = |p: &mut Prng| -> usize { *p.pick(&[1usize, 15, 16, 17, 255, 256, 257, 300, 1024, 4096]) };
    for round in 0..3 {
        let (a, b) = (if round == 0 { size(p) } else { p.range(0, 600) }, if round == 0 { size(p) } else { p.range(0, 600) });
        w.exec(par(req_op("g0", a), req_op("g1", b), &par_order(p)));
    }
    w.bump("history.first-requests-side-by-side");
}

pub fn run_c08(p: &mut Prng, t: Tier, i: usize, sink: &mut Sink) {
    if i < EXHAUSTIVE_PAIRS {
        exhaustive(p, i, sink);
        return;
    }
    if isolated_c08(t, i) {
        let mut w = World::new();
        first_requests_side_by_side(p, &mut w);
        w.objs.zuc.clear();
        sink.done(w);
        return;
    }
    let ngen = p.range(1, 4);
    let mut w = World::new();
    let mut budget: Vec<usize> = vec![];
    // request-size law for this run
    let law = p.below(6);
    let big = t.pick(1usize << 16, 1usize << 20);
    for g in 0..ngen {
        let (k, iv) = key_iv_class(p);
        w.exec(new_op(&format!("g{g}"), &k, &iv));
        let total = match law {
            0 => p.range(1, 600),               // always 1
            5 => if p.chance(1, t.pick(40, 200)) { big } else { p.range(1, 5000) },
            _ => p.range(1, 3000),
        };
        budget.push(total);
    }
    let mut steps = 0;
    loop {
        let live: Vec<usize> = (0..ngen).filter(|g| budget[*g] > 0).collect();
        if live.is_empty() || steps > 4000 {
            break;
        }
        steps += 1;
        let g = *p.pick(&live);
        let draw = |p: &mut Prng, left: usize| -> usize {
            let n = match law {
                0 => 1,
                1 => 1usize << p.below(8),
                2 => {
                    // geometric
                    let mut n = 1;
                    while p.chance(2, 3) && n < 200 {
                        n += 1;
                    }
                    n
                }
                3 => if p.chance(1, 2) { 0 } else { p.range(1, 40) }, // many zero-length requests
                4 => p.range(0, 64),
                _ => if left > 5000 { left } else { p.range(1, 512) }, // one large request
            };
            n.min(left)
        };
        let n = draw(p, budget[g]);
        // now and then two generators are driven by two simulated caller threads at once
        let others: Vec<usize> = live.iter().copied().filter(|h| *h != g).collect();
        if !others.is_empty() && p.chance(1, 20) {
            let h = *p.pick(&others);
            let m = draw(p, budget[h]);
            w.exec(par(req_op(&format!("g{g}"), n), req_op(&format!("g{h}"), m), &par_order(p)));
            budget[h] -= m;
        } else {
            w.exec(req_op(&format!("g{g}"), n));
        }
        budget[g] -= n;
    }
    w.bump("history.seeded");
    if sink.samples.is_empty() && i == EXHAUSTIVE_PAIRS {
        w.samples.push(json!({"schedule": w.history.iter().take(16).cloned().collect::<Vec<_>>()}));
    }
    // objects are dropped with the world
    w.objs.zuc.clear();
    sink.done(w);
}
