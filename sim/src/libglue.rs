//! Conversions between wire bytes / big integers and the library's own types.
//! Nothing here is an oracle; it only moves values across the API boundary.
#![allow(dead_code)]

use crate::refmodel::{sm2 as rsm2, sm9 as rsm9};
use num_bigint::BigUint;
use num_traits::{One, Zero};
use std::collections::HashMap;
use std::sync::Mutex;

// ---------------------------------------------------------------------------------------------
// identifiers: the SM2 API wants Option<&'static str>

static IDS: Mutex<Option<HashMap<Vec<u8>, &'static str>>> = Mutex::new(None);

/// Interned leak; None if the bytes are not UTF-8 (the library cannot be given such an ID).
pub fn static_id(b: &[u8]) -> Option<&'static str> {
    let s = std::str::from_utf8(b).ok()?;
    let mut g = IDS.lock().unwrap();
    let m = g.get_or_insert_with(HashMap::new);
    if let Some(v) = m.get(b) {
        return Some(*v);
    }
    let leaked: &'static str = Box::leak(s.to_string().into_boxed_str());
    m.insert(b.to_vec(), leaked);
    Some(leaked)
}

// ---------------------------------------------------------------------------------------------
// 256-bit limbs (little-endian u64 limbs in both crates)

pub fn big_to_limbs(x: &BigUint) -> [u64; 4] {
    let d = x.to_u64_digits();
    assert!(d.len() <= 4, "value exceeds 256 bits");
    let mut o = [0u64; 4];
    o[..d.len()].copy_from_slice(&d);
    o
}

pub fn limbs_to_big(l: &[u64; 4]) -> BigUint {
    let mut b = Vec::with_capacity(32);
    for i in (0..4).rev() {
        b.extend_from_slice(&l[i].to_be_bytes());
    }
    BigUint::from_bytes_be(&b)
}

pub fn limbs_to_be(l: &[u64; 4]) -> [u8; 32] {
    let mut o = [0u8; 32];
    for i in 0..4 {
        o[8 * i..8 * i + 8].copy_from_slice(&l[3 - i].to_be_bytes());
    }
    o
}

pub fn be_to_limbs(b: &[u8]) -> [u64; 4] {
    assert!(b.len() == 32);
    big_to_limbs(&BigUint::from_bytes_be(b))
}

// ---------------------------------------------------------------------------------------------
// SM2 points

/// Montgomery form x * 2^256 mod p, as the library stores coordinates.
pub fn sm2_mont(x: &BigUint) -> [u64; 4] {
    rsm2::with_curve(|c| big_to_limbs(&((x << 256u32) % &c.p)))
}

/// Library point built directly as a struct from affine integers: no validation of any kind.
pub fn sm2_point_struct(x: &BigUint, y: &BigUint) -> gm_sm2::p256_ecc::Point {
    gm_sm2::p256_ecc::Point { x: sm2_mont(x), y: sm2_mont(y), z: sm2_mont(&BigUint::one()) }
}

/// The library's point at infinity as it represents it itself.
pub fn sm2_point_infinity() -> gm_sm2::p256_ecc::Point {
    gm_sm2::p256_ecc::Point::zero()
}

/// 04||x||y bytes -> struct without validation (what a careless caller could hand over).
pub fn sm2_point_from_wire_unchecked(b: &[u8]) -> Option<gm_sm2::p256_ecc::Point> {
    if b.len() != 65 {
        return None;
    }
    Some(sm2_point_struct(&BigUint::from_bytes_be(&b[1..33]), &BigUint::from_bytes_be(&b[33..65])))
}

/// The same affine point in another Jacobian representation (x z^2, y z^3, z), z != 0: the form
/// in which the library itself hands points out (exchange_1 / exchange_2 return them un-normalised).
pub fn sm2_point_jacobian(x: &BigUint, y: &BigUint, z: &BigUint) -> gm_sm2::p256_ecc::Point {
    let p = rsm2::with_curve(|c| c.p.clone());
    let z = z % &p;
    let z2 = (&z * &z) % &p;
    let z3 = (&z2 * &z) % &p;
    gm_sm2::p256_ecc::Point { x: sm2_mont(&((x * &z2) % &p)), y: sm2_mont(&((y * &z3) % &p)), z: sm2_mont(&z) }
}

pub fn sm2_point_to_ref(p: &gm_sm2::p256_ecc::Point) -> rsm2::Pt {
    if p.is_zero() {
        return None;
    }
    let b = p.to_byte_be(false);
    Some((BigUint::from_bytes_be(&b[1..33]), BigUint::from_bytes_be(&b[33..65])))
}

// ---------------------------------------------------------------------------------------------
// SM9 points

pub fn sm9_mont(x: &BigUint) -> [u64; 4] {
    rsm9::with(|s| big_to_limbs(&((x << 256u32) % &s.p)))
}

pub fn sm9_point_struct(x: &BigUint, y: &BigUint) -> gm_sm9::points::Point {
    gm_sm9::points::Point { x: sm9_mont(x), y: sm9_mont(y), z: sm9_mont(&BigUint::one()) }
}

pub fn sm9_point_jacobian(x: &BigUint, y: &BigUint, z: &BigUint) -> gm_sm9::points::Point {
    let p = rsm9::with(|s| s.p.clone());
    let z = z % &p;
    let z2 = (&z * &z) % &p;
    let z3 = (&z2 * &z) % &p;
    gm_sm9::points::Point { x: sm9_mont(&((x * &z2) % &p)), y: sm9_mont(&((y * &z3) % &p)), z: sm9_mont(&z) }
}

/// How a G1 point on the wire (04||x||y) is handed to the library: "affine" (z = 1), "jac:<hex z>"
/// (another representation of the SAME point) or "infinity" (the library's own Point::zero()).
pub fn sm9_point_form(b: &[u8], form: &str) -> Option<gm_sm9::points::Point> {
    if form == "infinity" {
        return Some(gm_sm9::points::Point::zero());
    }
    if b.len() != 65 {
        return None;
    }
    let (x, y) = (BigUint::from_bytes_be(&b[1..33]), BigUint::from_bytes_be(&b[33..65]));
    match form.strip_prefix("jac:") {
        Some(h) => {
            let z = BigUint::parse_bytes(h.as_bytes(), 16)?;
            if z.is_zero() {
                return None;
            }
            Some(sm9_point_jacobian(&x, &y, &z))
        }
        None => Some(sm9_point_struct(&x, &y)),
    }
}

pub fn sm9_point_from_ref(p: &rsm9::G1) -> gm_sm9::points::Point {
    match p {
        None => gm_sm9::points::Point::zero(),
        Some((x, y)) => sm9_point_struct(x, y),
    }
}

/// 04||x||y -> struct, no validation
pub fn sm9_point_from_wire_unchecked(b: &[u8]) -> Option<gm_sm9::points::Point> {
    if b.len() != 65 {
        return None;
    }
    Some(sm9_point_struct(&BigUint::from_bytes_be(&b[1..33]), &BigUint::from_bytes_be(&b[33..65])))
}

pub fn sm9_point_to_ref(p: &gm_sm9::points::Point) -> rsm9::G1 {
    if p.is_zero() {
        return None;
    }
    let b = p.to_bytes_be();
    Some((BigUint::from_bytes_be(&b[1..33]), BigUint::from_bytes_be(&b[33..65])))
}

pub fn sm9_twist_from_ref(q: &rsm9::G2) -> gm_sm9::points::TwistPoint {
    match q {
        None => gm_sm9::points::TwistPoint::zero(),
        Some((x, y)) => {
            let h = |v: &BigUint| hex::encode(rsm9::be32(v));
            let (x0, x1, y0, y1) = (h(&x.0), h(&x.1), h(&y.0), h(&y.1));
            gm_sm9::points::TwistPoint::from_hex([&x0, &x1], [&y0, &y1])
        }
    }
}

/// Affine coordinates of a library twist point, computed here from its Jacobian coordinates
/// (the library offers no affine accessor for G2).
pub fn sm9_twist_to_ref(q: &gm_sm9::points::TwistPoint) -> rsm9::G2 {
    use gm_sm9::fields::FieldElement;
    let f2 = |b: Vec<u8>| -> rsm9::F2 { (BigUint::from_bytes_be(&b[32..64]), BigUint::from_bytes_be(&b[0..32])) };
    let x = f2(q.x.to_bytes_be());
    let y = f2(q.y.to_bytes_be());
    let z = f2(q.z.to_bytes_be());
    if z.0.is_zero() && z.1.is_zero() {
        return None;
    }
    rsm9::with(|s| Some(s.twist_affine(&x, &y, &z)))
}
