mod refmodel;
fn main() {
    let t = std::time::Instant::now();
    match refmodel::selftest() {
        Ok(()) => println!("selftest ok in {:?}", t.elapsed()),
        Err(e) => { println!("SELFTEST FAILED: {e}"); std::process::exit(2) }
    }
}
