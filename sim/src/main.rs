//! gmsim — deterministic simulation with fault injection for CrayfishGo/gm-rs.
//!
//!   gmsim check <ID> <quick|thorough>     run the check of one property (env VERIF_SEED)
//!   gmsim replay <file>                   re-execute a replay file step by step
//!   gmsim selftest                        reference-model self-tests (published vectors)
//!   gmsim digest <ID> <tier> [--serial]   print the run digest only (determinism proof)
//!   gmsim journal-run <ID> <tier> <seed> <run> <file>   one run, in-flight schedule journalled

mod devtime;
mod place;
mod findrare;
mod gen_c14;
mod gen_c19;
mod gen_c20;
mod gen_common;
mod gen_sm2enc;
mod gen_sm2kex;
mod gen_sm2sig;
mod gen_sm9;
mod gen_zuc;
mod libglue;
mod objs;
mod ops_c14;
mod ops_doc;
mod ops_entry;
mod ops_sm2;
mod ops_sm9;
mod ops_zuc;
mod prng;
mod props;
mod refmodel;
mod runner;
mod simrng;
mod world;

use runner::{Found, Known, Tier};
use serde_json::{json, Value};
use std::collections::BTreeMap;
use std::path::{Path, PathBuf};
use std::time::Instant;

fn verif_dir() -> PathBuf {
    // the binary lives in <verif>/sim/target/release/
    if let Ok(d) = std::env::var("GMSIM_VERIF_DIR") {
        return PathBuf::from(d);
    }
    let exe = std::env::current_exe().unwrap();
    exe.ancestors().nth(4).map(|p| p.to_path_buf()).unwrap_or_else(|| PathBuf::from("/verif"))
}

fn seed_from_env() -> u64 {
    std::env::var("VERIF_SEED").ok().and_then(|s| s.trim().parse::<u64>().ok()).unwrap_or(runner::DEFAULT_SEED)
}

fn parse_tier(s: Option<&String>) -> Tier {
    let t = s.cloned().or_else(|| std::env::var("VERIF_TIER").ok()).unwrap_or_else(|| "quick".into());
    match t.as_str() {
        "thorough" => Tier::Thorough,
        _ => Tier::Quick,
    }
}

fn main() {
    simrng::install_panic_hook();
    simrng::install_sched_hooks();
    let args: Vec<String> = std::env::args().collect();
    let code = match args.get(1).map(|s| s.as_str()) {
        Some("selftest") => match refmodel::selftest() {
            Ok(()) => {
                println!("reference self-tests ok");
                0
            }
            Err(e) => {
                println!("HARNESS ERROR: reference self-test failed: {e}");
                2
            }
        },
        Some("replay") => match args.get(2) {
            Some(p) => runner::replay_file(Path::new(p), args.iter().any(|a| a == "--quiet")),
            None => 2,
        },
        Some("check") => cmd_check(&args),
        Some("worker") => cmd_worker(&args),
        Some("record") => cmd_record(&args),
        Some("digest") => cmd_digest(&args),
        Some("journal-run") => cmd_journal_run(&args),
        Some("dump-artifacts") => {
            devtime::dump(Path::new(args.get(2).map(|s| s.as_str()).unwrap_or("/tmp/gmsim-artifacts")));
            0
        }
        Some("find-rare-e") => {
            findrare::rare_e(args.get(2).and_then(|s| s.parse().ok()).unwrap_or(2));
            0
        }
        Some("dev-collisions") => {
            devtime::siphash_collisions();
            0
        }
        Some("find-rare") => {
            findrare::main(args.get(2).and_then(|s| s.parse().ok()).unwrap_or(20));
            0
        }
        Some("c14-child") => {
            gen_c14::child_main(args.get(2).and_then(|s| s.parse().ok()).unwrap_or(2));
            0
        }
        _ => {
            eprintln!("usage: gmsim check <ID> <quick|thorough> | replay <file> | selftest | digest <ID> <tier>");
            2
        }
    };
    std::process::exit(code);
}

fn cmd_digest(args: &[String]) -> i32 {
    let id = match args.get(2) {
        Some(s) => s.clone(),
        None => return 2,
    };
    let tier = parse_tier(args.get(3));
    let serial = args.iter().any(|a| a == "--serial");
    let def = match props::lookup(&id) {
        Some(d) => d,
        None => return 2,
    };
    let runs = args.iter().position(|a| a == "--runs").and_then(|i| args.get(i + 1)).and_then(|s| s.parse().ok()).unwrap_or((def.runs)(tier));
    match runner::run_all(def.run, def.isolated, seed_from_env(), &id, tier, runs, serial) {
        Ok(m) => {
            println!("{} runs={} worlds={} ops={}", m.digest, m.runs, m.worlds, m.ops);
            0
        }
        Err(_) => 2,
    }
}

fn cmd_worker(args: &[String]) -> i32 {
    if args.len() < 8 {
        return 2;
    }
    let def = match props::lookup(&args[2]) {
        Some(d) => d,
        None => return 2,
    };
    let n = |i: usize| args[i].parse::<u64>().unwrap_or(0);
    runner::worker_main(def.run, def.isolated, n(4), &args[2], parse_tier(args.get(3)), n(5) as usize, n(6) as usize, (n(7) as usize).max(1))
}

/// `gmsim record <run|worker> <ID> <tier> <seed> <run> <workers> <oracle>`: the run-level or
/// worker-level schedule as a JSON array on stdout (null if the violation does not occur).
fn cmd_record(args: &[String]) -> i32 {
    if args.len() < 9 {
        return 2;
    }
    let def = match props::lookup(&args[3]) {
        Some(d) => d,
        None => return 2,
    };
    let tier = parse_tier(args.get(4));
    let seed: u64 = args[5].parse().unwrap_or(runner::DEFAULT_SEED);
    let run: usize = args[6].parse().unwrap_or(0);
    let n: usize = args[7].parse().unwrap_or(1);
    // the violation's key (entry point, input class, outcome) as canonical JSON text, if given
    let key = args.get(9).and_then(|k| serde_json::from_str::<Value>(k).ok()).map(|v| v.to_string()).unwrap_or_default();
    let s = if args[2] == "worker" {
        runner::worker_level_schedule(def.run, def.isolated, seed, &args[3], tier, run, n.max(1), &args[8], &key)
    } else {
        runner::run_level_schedule(def.run, seed, &args[3], tier, run, &args[8], &key)
    };
    println!("{}", serde_json::to_string(&s).unwrap());
    0
}

fn cmd_journal_run(args: &[String]) -> i32 {
    if args.len() < 7 {
        return 2;
    }
    let def = match props::lookup(&args[2]) {
        Some(d) => d,
        None => return 2,
    };
    let tier = parse_tier(args.get(3));
    let seed: u64 = args[4].parse().unwrap_or(runner::DEFAULT_SEED);
    let run: usize = args[5].parse().unwrap_or(0);
    runner::set_journal_property(&args[2]);
    runner::set_journal(Some(PathBuf::from(&args[6])));
    // the same backstop as in a worker (compound ops re-arm it per library call): exit 3 = an op
    // really does not return; exit 0 = the run completes
    runner::spawn_watchdog(|_| std::process::exit(3));
    // optional 7th argument: the number of worker processes of the batch. Then everything the
    // run's worker executed before it is executed first (a hang may need what an earlier run
    // left behind in the process); the journal is switched on for the run itself only.
    let n: usize = args.get(7).and_then(|s| s.parse().ok()).unwrap_or(0);
    if run >= (def.runs)(tier) {
        return 0; // not a run of this batch (a thread that belongs to no run was stuck)
    }
    if n > 0 && !(def.isolated)(tier, run) {
        let journal = PathBuf::from(&args[6]);
        runner::set_journal(None);
        runner::journal_cumulative();
        let mut r = run % n;
        while r < run {
            if !(def.isolated)(tier, r) {
                let _ = runner::run_one(def.run, seed, &args[2], tier, r);
                runner::journal_mark(json!({"op":"thread.reset"}));
            }
            r += n;
        }
        runner::set_journal(Some(journal));
    }
    let _ = runner::run_one(def.run, seed, &args[2], tier, run);
    0
}

fn cmd_check(args: &[String]) -> i32 {
    let id = match args.get(2) {
        Some(s) => s.clone(),
        None => return 2,
    };
    let tier = parse_tier(args.get(3));
    let seed = seed_from_env();
    let def = match props::lookup(&id) {
        Some(d) => d,
        None => {
            eprintln!("no check for property {id}");
            return 2;
        }
    };
    let t0 = Instant::now();
    if let Err(e) = refmodel::selftest() {
        println!("HARNESS ERROR: reference self-test failed: {e}");
        return 2;
    }
    let vdir = verif_dir();
    let replay_dir = vdir.join("replays");
    // replay files of an earlier run of this check are stale: remove them
    if let Ok(rd) = std::fs::read_dir(&replay_dir) {
        for e in rd.flatten() {
            let n = e.file_name().to_string_lossy().to_string();
            if n.starts_with(&format!("{id}-")) && n.ends_with(".json") && !args.iter().any(|a| a == "--journal-all") {
                let _ = std::fs::remove_file(e.path());
            }
        }
    }
    let journal_all = args.iter().any(|a| a == "--journal-all");
    runner::set_journal_property(&id);
    if journal_all {
        std::fs::create_dir_all(&replay_dir).ok();
        runner::set_journal(Some(replay_dir.join(format!("{id}-{seed}-inflight.json"))));
    }
    let def_runs = def.runs;
    let on_stuck = {
        let id2 = id.clone();
        let rd = replay_dir.clone();
        move |run: usize| -> bool {
            // an op exceeded the wall-clock backstop. Re-execute that single run in a child with the
            // journal on. If it hangs again, the journalled in-flight schedule is the replay
            // (returns true). If the child finishes by itself, nothing hangs: the first
            // observation was the machine (a stalled or suspended VM, extreme load), not the
            // library (returns false).
            std::fs::create_dir_all(&rd).ok();
            let file = rd.join(format!("{id2}-{seed}-{run}-timeout.json"));
            let exe = std::env::current_exe().unwrap();
            let mut hung = true;
            // first the run alone; if it completes, once more after everything its worker had
            // executed before it (process-wide state left by earlier runs)
            let nworkers = runner::workers().min((def_runs)(tier).max(1));
            for prefix in [0usize, nworkers] {
            if let Ok(mut child) = std::process::Command::new(&exe)
                .args(["journal-run", &id2, tier.name(), &seed.to_string(), &run.to_string(), file.to_str().unwrap(), &prefix.to_string()])
                .spawn()
            {
                let t0 = Instant::now();
                // the child applies the same backstop to itself and exits 3 if an op hangs again;
                // a run may legitimately take long as a whole (thorough-tier long histories)
                loop {
                    std::thread::sleep(std::time::Duration::from_millis(500));
                    if let Ok(Some(st)) = child.try_wait() {
                        hung = st.code() != Some(0);
                        break;
                    }
                    if t0.elapsed() > std::time::Duration::from_secs(3600) {
                        break;
                    }
                }
                let _ = child.kill();
                let _ = child.wait();
            }
            if hung {
                break;
            }
            }
            if hung {
                println!("VIOLATION property={id2} replay={} outcome=timeout", file.display());
            } else {
                let _ = std::fs::remove_file(&file);
                println!("HARNESS NOTE: an op of run {run} exceeded the {} s wall-clock backstop, but the run completes when re-executed alone: a stall of the machine, not of the library; the batch is repeated", runner::HANG_SECS);
            }
            hung
        }
    };
    {
        let f = on_stuck.clone();
        runner::spawn_watchdog(move |run| {
            f(run);
        });
    }
    let runs = (def.runs)(tier);
    println!("gmsim: property={id} tier={} seed={seed} runs={runs} tree={}", tier.name(), runner::tree_rev());
    let mut attempts = 0;
    let m = loop {
        attempts += 1;
        match runner::run_all(def.run, def.isolated, seed, &id, tier, runs, journal_all) {
            Ok(m) => break m,
            Err(runner::WorkerFail::Stuck(run)) => {
                if on_stuck(run) {
                    return 1;
                }
                if attempts >= 3 {
                    println!("HARNESS ERROR: the wall-clock backstop fired three times without any run hanging when re-executed: this machine is too unsteady to judge hangs");
                    return 2;
                }
            }
            Err(runner::WorkerFail::Died(code)) => {
                // the wrapper re-runs the batch serially with the journal on to find the op that died
                println!("gmsim: a worker process ended abnormally (status {code})");
                return if code == 101 || code == 2 { code } else { 134 };
            }
        }
    };
    let sim_wall = t0.elapsed().as_secs_f64();

    if m.stats.get("harness.invalid-schedule").copied().unwrap_or(0) > 0 {
        println!("HARNESS ERROR: a scheduler produced a malformed schedule: {}", m.samples.iter().find(|s| s.get("invalid").is_some()).map(|s| s.to_string()).unwrap_or_default());
        return 2;
    }

    // vacuity guards (only meaningful for full-size runs)
    if !journal_all {
        let mut lost = vec![];
        for (k, min) in props::guards(&id) {
            let got = m.stats.get(k).copied().unwrap_or(0);
            if got < min {
                lost.push(format!("{k} = {got} < {min}"));
            }
        }
        if !lost.is_empty() && m.found.iter().all(|f| f.v.property != id) {
            println!("HARNESS ERROR: the check no longer exercises what it is supposed to judge: {}", lost.join("; "));
            return 2;
        }
    }
    let known = Known::load(&vdir.join("known_findings.jsonl"));
    let mut other: BTreeMap<String, u64> = BTreeMap::new();
    let mut known_hit: BTreeMap<String, u64> = BTreeMap::new();
    let mut groups: BTreeMap<String, Vec<Found>> = BTreeMap::new();
    for f in &m.found {
        if f.v.property != id {
            continue;
        }
        if let Some(k) = known.matches(&f.v) {
            let what = k.get("what").and_then(|w| w.as_str()).unwrap_or("").to_string();
            *known_hit.entry(what).or_insert(0) += 1;
        } else {
            groups.entry(format!("{}|{}", f.v.oracle, f.v.key)).or_default().push(f.clone());
        }
    }
    for (k, c) in &m.viol_counts {
        let prop = k.split('|').next().unwrap_or("");
        if prop != id {
            *other.entry(k.clone()).or_insert(0) += c;
        }
    }
    for (what, n) in &known_hit {
        println!("KNOWN-FINDING: property={id} {what} (seen {n}x)");
    }
    let mut n_viol = 0;
    let mut harness_err = false;
    // When a change breaks nearly every run there are dozens of violation classes; minimising each
    // in fresh processes would take an hour. Replay files are written for the first 40 classes, and
    // minimisation stops 4 minutes after the batch (later classes get their confirmed raw schedule).
    let post_deadline = Instant::now() + std::time::Duration::from_secs(240);
    for (gi, (_, fs)) in groups.iter().enumerate() {
        n_viol += 1;
        if gi >= 40 {
            continue; // enough replay files; the count is still reported
        }
        let budget = |b: usize| if Instant::now() > post_deadline { 0 } else { b };
        let exe = std::env::current_exe().unwrap();
        let confirm = |path: &std::path::Path| -> bool {
            let out = std::process::Command::new(&exe).arg("replay").arg(path).output();
            out.as_ref().map(|o| o.status.code() == Some(1)).unwrap_or(false)
        };
        // among the recorded instances of this violation class prefer one whose own world
        // reproduces in a fresh process (an instance may instead depend on state the library kept
        // from other worlds, runs or threads)
        let mut pick = 0;
        for (ci, cand) in fs.iter().take(if Instant::now() > post_deadline { 1 } else { 6 }).enumerate() {
            let rp = runner::write_replay(&replay_dir, &id, seed, tier, cand, &cand.schedule, false, gi);
            if confirm(&rp) {
                pick = ci;
                break;
            }
        }
        let f = &fs[pick];
        // does the violating world reproduce on its own (fresh process)?
        let raw_path = runner::write_replay(&replay_dir, &id, seed, tier, f, &f.schedule, false, gi);
        let (min_sched, tries, path) = if confirm(&raw_path) {
            let (m, t) = runner::minimise(&f.schedule, &id, &f.v.oracle, &f.v.key, budget(300));
            let p = runner::write_replay(&replay_dir, &id, seed, tier, f, &m, true, gi);
            (m, t, p)
        } else {
            // it depends on state the library kept from earlier worlds of the same run: replay the
            // run as a whole (worlds separated by world.reset), then minimise that
            println!("  note: the violating world alone does not reproduce; replaying run {} as a whole (hidden state across operations)", f.run);
            match runner::recorded_schedule("run", seed, &id, tier, f.run, 1, &f.v.oracle, &f.v.key) {
                Some(full) => {
                    let (m, t) = runner::minimise(&full, &id, &f.v.oracle, &f.v.key, budget(200));
                    let p = runner::write_replay(&replay_dir, &id, seed, tier, f, &m, true, gi);
                    (m, t, p)
                }
                None => (f.schedule.clone(), 0, raw_path.clone()),
            }
        };
        let mut ok = confirm(&path);
        let (min_sched, path) = if !ok && !confirm(&raw_path) && !journal_all {
            // neither the world nor the run reproduces alone: the violation needs state the library
            // kept process-wide from EARLIER RUNS of the same worker process; replay all of them
            println!("  note: run {} alone does not reproduce; replaying everything its worker process executed before it", f.run);
            let n = runner::workers().min(runs.max(1));
            match runner::recorded_schedule("worker", seed, &id, tier, f.run, n, &f.v.oracle, &f.v.key) {
                Some(full) => {
                    let p = runner::write_replay(&replay_dir, &id, seed, tier, f, &full, false, gi);
                    ok = confirm(&p);
                    (full, p)
                }
                None => (min_sched, path),
            }
        } else if !ok && confirm(&raw_path) {
            // the minimised schedule lost something the violation needs (state across ops that the
            // in-process minimiser could not see): hand out the unminimised, confirmed schedule
            ok = true;
            (f.schedule.clone(), raw_path.clone())
        } else {
            (min_sched, path)
        };
        if !ok {
            println!("HARNESS ERROR: replay of {} did not reproduce the violation in a fresh process", path.display());
            harness_err = true;
        }
        println!("  oracle={} step-count={} (minimised from {} ops in {} re-executions): {}", f.v.oracle, min_sched.len(), f.schedule.len(), tries, f.v.detail);
        println!("VIOLATION property={id} replay={}", path.display());
    }

    // evidence
    let evals: u64 = m.stats.iter().filter(|(k, _)| k.starts_with(&format!("oracle.{id}."))).map(|(_, v)| *v).sum();
    let distinct = m.cases.get(&id).map(|s| s.len()).unwrap_or(0);
    let sub = |pfx: &str| -> Value {
        let mut o = serde_json::Map::new();
        for (k, v) in &m.stats {
            if let Some(r) = k.strip_prefix(pfx) {
                o.insert(r.to_string(), json!(v));
            }
        }
        Value::Object(o)
    };
    let wall = t0.elapsed().as_secs_f64();
    let ev = json!({
        "property_id": id,
        "tier": tier.name(),
        "seed": seed,
        "level": def.level,
        "coverage": {
            "evaluations": evals,
            "distinct_nontrivial": distinct,
            "rule": def.rule,
            "samples": m.samples,
            "exhaustive": false,
            "exhaustive_per_sample": def.exhaustive_per_sample,
            "runs": m.runs,
            "distinct_interleavings": m.cases.get("interleavings").map(|s| s.len()).unwrap_or(0),
            "interleaving_measure": "distinct (operation pair, sequence of which simulated caller thread proceeded at each scheduling point) over all two-caller operations of the batch",
            "seeds": format!("run i uses mix(VERIF_SEED={seed}, property, tier, i), i in 0..{}", m.runs),
            "worlds": m.worlds,
            "events_simulated_time": m.ops,
            "simulated_time_note": "gm-rs has no clock; simulated time is the global event (op) count",
            "runs_per_hour": if sim_wall > 0.0 { (m.runs as f64 / sim_wall * 3600.0) as u64 } else { 0 },
            "run_digest": m.digest,
            "oracle_evaluations": sub(&format!("oracle.{id}.")),
            "faults_fired": sub("fault."),
            "faults_without_effect": sub("fault-noop."),
            "rng_faults": sub("rngfault."),
            "probes": sub("probe."),
            "calls_by_entry": sub("call."),
            "ops": sub("op."),
            "histories": sub("history."),
            "real_vs_stub": {
                "real": ["gm-sm2", "gm-sm3", "gm-sm4", "gm-sm9", "gm-zuc (all five crates, built from /repo's working tree with --cfg gm_rs_verif)"],
                "simulated": ["random byte source (scripted candidates through the RNG seam)", "transport / storage of every byte string between two library calls", "peer implementations where the reference party plays (sm2/sm3/sm9/zuc reference models)"],
                "not_present_in_gm_rs": ["clock", "disk", "network sockets", "threads of its own (caller threads are simulated: `par` ops)"],
                "isolation": "runs are distributed over worker PROCESSES (run i on worker i mod N, sequential inside a worker, a fresh thread per run); two concurrent caller threads exist only inside a `par` op, where the simulator decides every switch"
            },
            "other_property_observations": other,
            "known_findings_hit": known_hit,
        },
        "assumptions": def.assumptions,
        "wall_s": wall,
        "violations": n_viol,
    });
    let evdir = vdir.join("evidence");
    std::fs::create_dir_all(&evdir).ok();
    std::fs::write(evdir.join(format!("{id}.json")), serde_json::to_string_pretty(&ev).unwrap()).expect("write evidence");
    println!(
        "gmsim: {id} {}: runs={} worlds={} events={} oracle-evaluations={} distinct-cases={} violations={} known={} wall={:.1}s digest={}",
        tier.name(), m.runs, m.worlds, m.ops, evals, distinct, n_viol, known_hit.len(), wall, &m.digest[..16]
    );
    if harness_err {
        return 2;
    }
    if n_viol > 0 {
        1
    } else {
        0
    }
}
