//! Stateful objects that live across ops: ZUC generators and SM2 key-agreement parties.

use crate::refmodel::sm2 as rsm2;
use num_bigint::BigUint;
use std::collections::BTreeMap;

pub struct ZucObj {
    pub lib: gm_zuc::ZUC,
    pub key: [u8; 16],
    pub iv: [u8; 16],
    /// reference keystream computed so far (whole-vector model) and the cursor into it
    pub reference: Vec<u32>,
    pub cursor: usize,
}

/// What the simulation knows about a key-agreement party (used by the oracles, never by the library).
#[derive(Clone)]
pub struct KexMeta {
    pub initiator: bool,
    pub klen: usize,
    pub d: BigUint,
    pub id_self: Vec<u8>,
    pub id_peer: Vec<u8>,
    pub pk_peer: rsm2::Pt,
    /// own ephemeral scalar once known (recovered from the RNG script / chosen by the ref party)
    pub r: Option<BigUint>,
    /// peer's ephemeral point as delivered to this party (wire bytes)
    pub peer_r_wire: Option<Vec<u8>>,
    /// own ephemeral point as sent (wire bytes)
    pub own_r_wire: Option<Vec<u8>>,
    pub completed: Option<bool>,
    pub key: Option<Vec<u8>>,
}

pub enum KexImpl {
    Lib(gm_sm2::exchange::Exchange),
    Ref,
}

pub struct KexObj {
    pub imp: KexImpl,
    pub meta: KexMeta,
}

#[derive(Default)]
pub struct Objs {
    pub zuc: BTreeMap<String, ZucObj>,
    pub kex: BTreeMap<String, KexObj>,
}

impl Objs {
    pub fn is_empty(&self) -> bool {
        self.zuc.is_empty() && self.kex.is_empty()
    }
}

impl Clone for Objs {
    fn clone(&self) -> Self {
        assert!(self.is_empty(), "stateful objects cannot be cloned");
        Objs::default()
    }
}
