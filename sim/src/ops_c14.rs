//! C14-M3 ops: statistics over secret scalars recovered while the library drew from its REAL
//! generator (observe mode of the seam), and the restart check (fresh processes must not
//! reproduce each other's scalars). These ops consume real randomness: they are labelled
//! non-replayable, excluded from the run digest, and their replay re-runs the statistic.

use crate::world::{fnv, gs, gu, World, R};
use num_bigint::BigUint;
use num_traits::{One, ToPrimitive, Zero};
use serde_json::{json, Value};
use std::collections::BTreeMap;

pub fn exec(w: &mut World, name: &str, op: &Value) -> R<Value> {
    match name {
        "c14.observe" => observe(w, op),
        "c14.stats" => stats(w, op),
        "c14.restart" => restart(w, op),
        "c14.bulk" => bulk(w, op),
        _ => Err(format!("unknown op {name}")),
    }
}

/// `n` invocations of one randomised call site with the real generator passing through the seam.
/// One compact op, so that a replay re-runs the whole observation.
fn observe(w: &mut World, op: &Value) -> R<Value> {
    w.nondeterministic = true;
    crate::runner::watch_exempt();
    let site = gs(op, "site")?.to_string();
    let n = gu(op, "n")? as usize;
    let mut p = crate::prng::Prng::new(gu(op, "seed")?);
    let sites: Vec<&str> = crate::gen_c14::SITES.iter().copied().filter(|s| *s == site || site == "all").collect();
    if sites.is_empty() {
        return Err(format!("unknown site {site}"));
    }
    let inner = crate::gen_c14::observe_world(&mut p, &sites, n);
    let step = w.history.len();
    for mut v in inner.violations {
        v.step = step;
        w.violations.push(v);
    }
    for (k, v) in inner.stats {
        if !k.starts_with("op.") {
            w.bump_by(&k, v);
        }
    }
    for (prop, set) in inner.cases {
        w.cases.entry(prop).or_default().extend(set);
    }
    let got = inner.observed.len();
    w.observed.extend(inner.observed);
    Ok(json!({"scalars": got}))
}

fn order_of(group: &str) -> BigUint {
    if group == "sm2" {
        crate::refmodel::sm2::with_curve(|c| c.n.clone())
    } else {
        crate::refmodel::sm9::with(|s| s.n.clone())
    }
}

/// number of integers in [0, n) with bit i set
fn count_bit_below(n: &BigUint, i: u64) -> BigUint {
    let full = (n >> (i + 1)) << i;
    let rem = n % (BigUint::one() << (i + 1));
    let half = BigUint::one() << i;
    let extra = if rem > half { rem - half } else { BigUint::zero() };
    full + extra
}

fn stats(w: &mut World, op: &Value) -> R<Value> {
    let group = gs(op, "group")?.to_string();
    w.nondeterministic = true;
    let m = order_of(&group);
    let vals: Vec<BigUint> = w.observed.iter().filter(|(g, _)| *g == group).map(|(_, v)| BigUint::from_bytes_be(v)).collect();
    let n = vals.len() as f64;
    let case = fnv(&[b"c14stats", group.as_bytes()]);
    if vals.len() < 256 {
        return Ok(json!({"n": vals.len(), "skipped": "too few scalars for a frequency test"}));
    }
    // exact expectation under the uniform law on [1, order-1]
    let denom = (&m - 1u32).to_f64().unwrap();
    let mut worst = (0u64, 0.0f64);
    let mut bad: Vec<String> = vec![];
    for i in 0..256u64 {
        let p = count_bit_below(&m, i).to_f64().unwrap() / denom;
        let obs = vals.iter().filter(|v| v.bit(i)).count() as f64;
        let sigma = (n * p * (1.0 - p)).sqrt();
        let dev = (obs - n * p).abs();
        let z = if sigma > 0.0 { dev / sigma } else if dev > 0.5 { 99.0 } else { 0.0 };
        if z > worst.1 {
            worst = (i, z);
        }
        if dev > 8.0 * sigma + 1.0 {
            bad.push(format!("bit {i}: observed {obs} of {n}, expected {:.1} (sigma {:.1})", n * p, sigma));
        }
    }
    let key = json!({"entry": format!("{group}.random-scalars"), "class": "bit-frequency", "outcome": "Ok"});
    w.check("C14", "M3-bit-frequency", bad.is_empty(), case, key.clone(), || {
        format!("{} scalars observed from the real generator ({group}): {}", vals.len(), bad.join("; "))
    });
    let inrange = vals.iter().all(|v| !v.is_zero() && v < &m);
    w.check("C14", "M3-in-range", inrange, case, key, || format!("{group}: a scalar drawn from the real generator lies outside [1, order-1]"));
    w.bump_by(&format!("probe.c14.m3-scalars-{group}"), vals.len() as u64);
    Ok(json!({"n": vals.len(), "worst_bit": worst.0, "worst_z": (worst.1 * 100.0).round() / 100.0}))
}

/// Fresh processes (and this one) must not produce a common scalar.
fn restart(w: &mut World, op: &Value) -> R<Value> {
    w.nondeterministic = true;
    crate::runner::watch_exempt();
    let procs = gu(op, "procs")? as usize;
    let per_site = gu(op, "per_site")? as usize;
    let exe = std::env::current_exe().map_err(|e| e.to_string())?;
    let mut seen: BTreeMap<Vec<u8>, usize> = BTreeMap::new();
    let mut dup: Vec<String> = vec![];
    let mut total = 0usize;
    // this process counts as process 0
    for (_, v) in &w.observed {
        seen.entry(v.clone()).or_insert(0);
    }
    // all children run concurrently
    let spawned: Vec<_> = (0..procs)
        .map(|_| {
            std::process::Command::new(&exe)
                .args(["c14-child", &per_site.to_string()])
                .stdout(std::process::Stdio::piped())
                .stderr(std::process::Stdio::piped())
                .spawn()
        })
        .collect();
    let children: Vec<_> = spawned.into_iter().map(|c| c.and_then(|c| c.wait_with_output())).collect();
    for (ci, out) in children.into_iter().enumerate() {
        let out = out.map_err(|e| format!("cannot spawn child: {e}"))?;
        if !out.status.success() {
            return Err(format!("c14 child failed: {}", String::from_utf8_lossy(&out.stderr)));
        }
        let mut mine: Vec<Vec<u8>> = vec![];
        for l in String::from_utf8_lossy(&out.stdout).lines() {
            if let Some(h) = l.strip_prefix("scalar ") {
                if let Ok(b) = hex::decode(h.split_whitespace().last().unwrap_or("")) {
                    mine.push(b);
                }
            }
        }
        total += mine.len();
        for b in mine {
            if let Some(prev) = seen.get(&b) {
                if *prev != ci + 1 {
                    dup.push(format!("{} (processes {} and {})", hex::encode(&b), prev, ci + 1));
                }
            }
            seen.entry(b).or_insert(ci + 1);
        }
    }
    // Two more fresh processes under one and the same SIMULATED environment: wall clock frozen at
    // the same instant, same process id, same address-space layout (shim/simenv.c through
    // LD_PRELOAD, setarch -R). They differ in nothing but what the OS entropy source gives them.
    {
        let shim = exe.parent().and_then(|d| d.parent()).map(|d| d.join("simenv.so")).filter(|f| f.exists());
        match shim {
            None => w.bump("probe.c14.simenv-shim-missing"),
            Some(shim) => {
                let spawn = || {
                    std::process::Command::new("setarch")
                        .arg("-R")
                        .arg(&exe)
                        .args(["c14-child", &per_site.to_string()])
                        .env("LD_PRELOAD", &shim)
                        .env("GMSIM_CLOCK_NS", "1790000000123456789")
                        .env("GMSIM_PID", "4242")
                        .stdout(std::process::Stdio::piped())
                        .stderr(std::process::Stdio::piped())
                        .spawn()
                };
                let kids: Vec<_> = (0..2).map(|_| spawn()).collect();
                let outs: Vec<_> = kids.into_iter().map(|c| c.and_then(|c| c.wait_with_output())).collect();
                let mut sets: Vec<Vec<String>> = vec![];
                let mut envs: Vec<String> = vec![];
                for o in outs {
                    let o = o.map_err(|e| format!("cannot spawn simulated-environment child: {e}"))?;
                    if !o.status.success() {
                        return Err(format!("c14 simulated-environment child failed: {}", String::from_utf8_lossy(&o.stderr)));
                    }
                    let txt = String::from_utf8_lossy(&o.stdout).to_string();
                    envs.push(txt.lines().find(|l| l.starts_with("env ")).unwrap_or("").to_string());
                    sets.push(txt.lines().filter_map(|l| l.strip_prefix("scalar ")).filter_map(|l| l.split_whitespace().last().map(String::from)).collect());
                }
                // the simulation took effect: both report the simulated clock and process id
                if envs.len() == 2 && envs[0] == "env 1790000000123456789 4242" && envs[1] == envs[0] {
                    w.bump_by("probe.c14.simenv-children", 2);
                } else {
                    w.bump("probe.c14.simenv-ineffective");
                }
                let a: std::collections::BTreeSet<&String> = sets[0].iter().collect();
                let common: Vec<&String> = sets[1].iter().filter(|x| a.contains(x)).collect();
                let key = json!({"entry": "process-restart", "class": "scalar-repeats-under-equal-simulated-environment", "outcome": "Ok"});
                let n = sets[0].len() + sets[1].len();
                w.check("C14", "M3-simenv-fresh", common.is_empty() && n > 0, fnv(&[b"c14simenv"]), key, || {
                    format!(
                        "two fresh processes with the same simulated wall clock, process id and address layout produced {} common scalars out of {}: {} ... (the scalars do not come from the OS entropy source)",
                        common.len(), n, common.iter().take(3).map(|s| s.as_str()).collect::<Vec<_>>().join(", ")
                    )
                });
                w.bump_by("probe.c14.simenv-scalars", n as u64);
            }
        }
    }
    // ... and neither must concurrent threads of this process (per-thread generators seeded alike)
    let nthreads = 4usize;
    let handles: Vec<_> = (0..nthreads)
        .map(|t| {
            std::thread::spawn(move || {
                let mut p = crate::prng::Prng::new(0x7112_EAD5 + t as u64);
                let w = crate::gen_c14::observe_world(&mut p, &crate::gen_c14::SITES, per_site);
                (w.observed, w.violations)
            })
        })
        .collect();
    let mut tdup: Vec<String> = vec![];
    let mut tseen: BTreeMap<Vec<u8>, usize> = BTreeMap::new();
    let mut ttotal = 0usize;
    for (ti, h) in handles.into_iter().enumerate() {
        let (obs, viols) = h.join().map_err(|_| "observer thread panicked".to_string())?;
        let step = w.history.len();
        for mut v in viols {
            v.step = step;
            w.violations.push(v);
        }
        ttotal += obs.len();
        for (_, b) in obs {
            if let Some(prev) = tseen.get(&b) {
                if *prev != ti {
                    tdup.push(format!("{} (threads {} and {})", hex::encode(&b), prev, ti));
                }
            }
            tseen.entry(b).or_insert(ti);
        }
    }
    let tkey = json!({"entry": "threads", "class": "scalar-repeats-across-threads", "outcome": "Ok"});
    w.check("C14", "M3-threads-fresh", tdup.is_empty() && ttotal > 0, fnv(&[b"c14threads"]), tkey, || {
        format!("{} scalars from {nthreads} concurrent threads: repeated across threads: {}", ttotal, tdup.iter().take(4).cloned().collect::<Vec<_>>().join(", "))
    });
    w.bump_by("probe.c14.m3-thread-scalars", ttotal as u64);
    let case = fnv(&[b"c14restart"]);
    let key = json!({"entry": "process-restart", "class": "scalar-repeats-across-processes", "outcome": "Ok"});
    w.check("C14", "M3-restart-fresh", dup.is_empty() && total > 0, case, key, || {
        format!("{} scalars from {procs} fresh processes: repeated across processes: {}", total, dup.iter().take(4).cloned().collect::<Vec<_>>().join(", "))
    });
    w.bump_by("probe.c14.m3-restart-scalars", total as u64);
    Ok(json!({"children": procs, "scalars": total}))
}

/// Many scalars from the real generator in one process, by the cheapest route to it (SM9: the
/// public `sm9_random_u256`; SM2: key generation). A generator whose scalars are determined by a
/// short internal value (a 32-bit seed per scalar, a truncated counter) repeats itself within a
/// few hundred thousand draws; a few thousand show nothing.
fn bulk(w: &mut World, op: &Value) -> R<Value> {
    use crate::simrng::{run_lib, RngScript};
    w.nondeterministic = true;
    let group = gs(op, "group")?.to_string();
    let n = gu(op, "n")? as usize;
    let m = order_of(&group);
    let n_limbs = crate::libglue::big_to_limbs(&m);
    let script = RngScript { cands: vec![], filler: 0, real: true };
    let mut seen: std::collections::HashSet<[u8; 32]> = std::collections::HashSet::with_capacity(n);
    let mut dups: Vec<String> = vec![];
    let mut out_of_range = 0usize;
    let mut got = 0usize;
    // the first scalars in the order they were handed out (one thread): relations between neighbours
    let mut seq: Vec<[u8; 32]> = vec![];
    for k in 0..n {
        crate::runner::touch();
        let (_, log) = run_lib(&script, || {
            if group == "sm2" {
                let _ = gm_sm2::key::gen_keypair();
            } else {
                let _ = gm_sm9::u256::sm9_random_u256(&n_limbs);
            }
        });
        for a in log.accepted {
            got += 1;
            let v = BigUint::from_bytes_be(&a);
            if v.is_zero() || v >= m {
                out_of_range += 1;
            }
            if !seen.insert(a) && dups.len() < 8 {
                dups.push(format!("{} (draw {k})", hex::encode(a)));
            }
            if got <= 20_000 {
                w.observed.push((group.clone(), a.to_vec()));
            }
            if seq.len() < 4096 {
                seq.push(a);
            }
        }
    }
    let case = fnv(&[b"c14bulk", group.as_bytes()]);
    let key = json!({"entry": format!("generator.{group}"), "class": "scalar-repeats-within-bulk", "outcome": "Ok"});
    w.check("C14", "M3-bulk-fresh", dups.is_empty() && got >= n, case, key.clone(), || {
        format!("{group}: {got} scalars from the real generator in one process: repeated: {}", dups.join(", "))
    });
    w.check("C14", "M3-in-range", out_of_range == 0, case, key.clone(), || format!("{group}: {out_of_range} bulk scalars outside [1, order-1]"));
    // A scalar must not be a public function of the one handed out before it: whoever learns one
    // secret (a private key) would know the next (a nonce). Tested: SM3 of the previous scalar
    // (big- or little-endian bytes, up to three applications: candidates in between may have been
    // rejected), a constant difference, a constant ratio of differences (linear congruential), each
    // modulo 2^256 and modulo the group order.
    {
        use crate::refmodel::sm3::sm3_parts;
        let mut chain_hits = 0usize;
        for pair in seq.windows(2) {
            let (prev, next) = (pair[0], pair[1]);
            let mut le = prev;
            le.reverse();
            'forms: for start in [prev, le] {
                let mut h = start;
                for _ in 0..3 {
                    h = sm3_parts(&[&h]);
                    let mut hl = h;
                    hl.reverse();
                    if h == next || hl == next || BigUint::from_bytes_be(&h) % &m == BigUint::from_bytes_be(&next) {
                        chain_hits += 1;
                        break 'forms;
                    }
                }
            }
        }
        let two256 = BigUint::one() << 256u32;
        let vals: Vec<BigUint> = seq.iter().take(256).map(|b| BigUint::from_bytes_be(b)).collect();
        let mut lin_hits = 0usize;
        for modulus in [&two256, &m] {
            let d: Vec<BigUint> = vals.windows(2).map(|p| ((&p[1] + modulus) - (&p[0] % modulus)) % modulus).collect();
            let const_diff = d.windows(2).filter(|p| p[0] == p[1]).count();
            lin_hits = lin_hits.max(const_diff);
            if modulus == &m {
                // ratio of consecutive differences modulo the (prime) order
                let inv = |x: &BigUint| x.modpow(&(&m - 2u32), &m);
                let r: Vec<BigUint> = d.windows(2).filter(|p| !p[0].is_zero()).map(|p| (&p[1] * inv(&p[0])) % &m).take(48).collect();
                lin_hits = lin_hits.max(r.windows(2).filter(|p| p[0] == p[1]).count());
            }
        }
        let key = json!({"entry": format!("generator.{group}"), "class": "scalar-predictable-from-previous", "outcome": "Ok"});
        w.check("C14", "M3-not-a-function-of-previous", chain_hits < 3 && lin_hits < 3, case, key, || {
            format!("{group}: among the first {} scalars handed out on one thread, {chain_hits} are the SM3 image of their predecessor and {lin_hits} neighbouring differences / difference ratios coincide: the next secret follows from the previous one", seq.len())
        });
    }
    w.bump_by(&format!("probe.c14.m3-bulk-scalars-{group}"), got as u64);
    Ok(json!({"scalars": got}))
}
