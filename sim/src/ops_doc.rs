//! Key documents written by one program and read by another (C19): SEC1 bytes, hex, SPKI and
//! PKCS#8 / SEC1 DER and PEM. A document is a byte slot, so it takes the same storage faults as
//! any other message. Writers are checked against the reference encoders / DER reader, readers
//! against "Ok => a valid curve point / the d the document holds" and "valid document => Ok".

use crate::libglue as glue;
use crate::refmodel::der;
use crate::refmodel::sm2 as rsm2;
use crate::simrng::{run_lib_norng, Class, Outcome};
use crate::world::{fnv, gs, World, R};
use gm_sm2::key::{Sm2PrivateKey, Sm2PublicKey};
use num_bigint::BigUint;
use num_traits::Zero;
use pkcs8::{DecodePrivateKey, DecodePublicKey, EncodePrivateKey, EncodePublicKey, LineEnding};
use serde_json::{json, Value};

pub fn exec(w: &mut World, name: &str, op: &Value) -> R<Value> {
    match name {
        "doc.pk.write" => pk_write(w, op),
        "doc.pk.read" => pk_read(w, op),
        "doc.sk.write" => sk_write(w, op),
        "doc.sk.read" => sk_read(w, op),
        _ => Err(format!("unknown op {name}")),
    }
}

// ---- reference side -------------------------------------------------------------------------

fn b64_decode(s: &str) -> Option<Vec<u8>> {
    let mut out = vec![];
    let mut acc: u32 = 0;
    let mut bits = 0;
    let mut pad = 0;
    for ch in s.bytes() {
        let v = match ch {
            b'A'..=b'Z' => ch - b'A',
            b'a'..=b'z' => ch - b'a' + 26,
            b'0'..=b'9' => ch - b'0' + 52,
            b'+' => 62,
            b'/' => 63,
            b'=' => {
                pad += 1;
                continue;
            }
            b'\r' | b'\n' | b' ' | b'\t' => continue,
            _ => return None,
        };
        if pad > 0 {
            return None;
        }
        acc = (acc << 6) | v as u32;
        bits += 6;
        if bits >= 8 {
            bits -= 8;
            out.push((acc >> bits) as u8);
            acc &= (1 << bits) - 1;
        }
    }
    Some(out)
}

fn b64_encode(b: &[u8]) -> String {
    const T: &[u8; 64] = b"ABCDEFGHIJKLMNOPQRSTUVWXYZabcdefghijklmnopqrstuvwxyz0123456789+/";
    let mut s = String::new();
    for ch in b.chunks(3) {
        let n = (ch[0] as u32) << 16 | (*ch.get(1).unwrap_or(&0) as u32) << 8 | *ch.get(2).unwrap_or(&0) as u32;
        s.push(T[(n >> 18) as usize & 63] as char);
        s.push(T[(n >> 12) as usize & 63] as char);
        s.push(if ch.len() > 1 { T[(n >> 6) as usize & 63] as char } else { '=' });
        s.push(if ch.len() > 2 { T[n as usize & 63] as char } else { '=' });
    }
    s
}

pub fn pem_wrap(label: &str, der: &[u8]) -> Vec<u8> {
    let b = b64_encode(der);
    let mut s = format!("-----BEGIN {label}-----\n");
    for line in b.as_bytes().chunks(64) {
        s.push_str(std::str::from_utf8(line).unwrap());
        s.push('\n');
    }
    s.push_str(&format!("-----END {label}-----\n"));
    s.into_bytes()
}

fn pem_unwrap(label: &str, doc: &[u8]) -> Option<Vec<u8>> {
    let s = std::str::from_utf8(doc).ok()?;
    let begin = format!("-----BEGIN {label}-----");
    let end = format!("-----END {label}-----");
    let a0 = s.find(&begin)?;
    let a = a0 + begin.len();
    let z = s.find(&end)?;
    if z < a || !s[..a0].trim().is_empty() || !s[z + end.len()..].trim().is_empty() {
        return None;
    }
    b64_decode(&s[a..z])
}

/// C19's notion of a valid SEC1 point encoding: right length, coordinates < p, on the curve.
/// (For 65-byte encodings the prefix byte is not judged here; C06 judges it for ciphertexts.)
fn c19_point(b: &[u8]) -> rsm2::Pt {
    rsm2::with_curve(|c| {
        if b.len() == 65 {
            let mut t = b.to_vec();
            if t[0] != 2 && t[0] != 3 {
                t[0] = 4;
                return c.decode_point(&t).ok().flatten();
            }
            None
        } else {
            c.decode_point(b).ok().flatten()
        }
    })
}

/// strict validity of a public-key document (used where the library is REQUIRED to accept)
fn strictly_valid_pk_doc(enc: &str, doc: &[u8]) -> rsm2::Pt {
    let strict = |b: &[u8]| rsm2::with_curve(|c| c.decode_point(b).ok().flatten());
    match enc {
        "sec1c" | "sec1u" => strict(doc),
        "hexc" | "hexu" => std::str::from_utf8(doc).ok().and_then(|s| hex::decode(s).ok()).and_then(|b| strict(&b)),
        _ => {
            // DER / PEM: required to decode only when byte-identical to a canonical encoding
            let pt = ref_pk_from_doc(enc, doc);
            let pt = match &pt {
                Some(_) => pt,
                None => return None,
            };
            let canon = ref_pk_to_doc(enc, &pt);
            let canon_crlf: Vec<u8> = String::from_utf8_lossy(&canon).replace('\n', "\r\n").into_bytes();
            if doc == canon.as_slice() || (enc == "spki-pem" && doc == canon_crlf.as_slice()) {
                pt
            } else {
                None
            }
        }
    }
}

fn ref_pk_from_doc(enc: &str, doc: &[u8]) -> rsm2::Pt {
    match enc {
        "sec1c" | "sec1u" => c19_point(doc),
        "hexc" | "hexu" => std::str::from_utf8(doc).ok().and_then(|s| hex::decode(s).ok()).and_then(|b| c19_point(&b)),
        "spki-der" => der::spki_point(doc).and_then(|p| c19_point(&p)),
        "spki-pem" => pem_unwrap("PUBLIC KEY", doc).and_then(|d| der::spki_point(&d)).and_then(|p| c19_point(&p)),
        _ => None,
    }
}

fn ref_pk_to_doc(enc: &str, pt: &rsm2::Pt) -> Vec<u8> {
    let (c, u) = rsm2::with_curve(|cv| (cv.encode_point(pt, true), cv.encode_point(pt, false)));
    match enc {
        "sec1c" => c,
        "sec1u" => u,
        "hexc" => hex::encode(c).into_bytes(),
        "hexu" => hex::encode(u).into_bytes(),
        "spki-der" => der::spki_build(&u),
        _ => pem_wrap("PUBLIC KEY", &der::spki_build(&u)),
    }
}

/// (d bytes, optional embedded public point) the document holds, by the reference DER reader.
fn ref_sk_from_doc(enc: &str, doc: &[u8]) -> Option<(Vec<u8>, Option<Vec<u8>>)> {
    match enc {
        "bytes" => Some((doc.to_vec(), None)),
        "hex" => std::str::from_utf8(doc).ok().and_then(|s| hex::decode(s).ok()).map(|b| (b, None)),
        "pkcs8-der" => der::pkcs8_private(doc),
        "pkcs8-pem" => pem_unwrap("PRIVATE KEY", doc).and_then(|d| der::pkcs8_private(&d)),
        "sec1-der" => der::sec1_private(doc),
        _ => None,
    }
}

fn ref_sk_to_doc(enc: &str, d: &[u8; 32]) -> Vec<u8> {
    let pt = rsm2::with_curve(|c| c.encode_point(&c.mul_g(&BigUint::from_bytes_be(d)), false));
    match enc {
        "bytes" => d.to_vec(),
        "hex" => hex::encode(d).into_bytes(),
        "pkcs8-der" => der::pkcs8_build(d, Some(&pt)),
        "pkcs8-pem" => pem_wrap("PRIVATE KEY", &der::pkcs8_build(d, Some(&pt))),
        _ => {
            // bare SEC1 ECPrivateKey
            let inner = der::pkcs8_build(d, Some(&pt));
            // unwrap the OCTET STRING of the PKCS#8 we just built
            let (_, body, _) = der::read_tlv(&inner).unwrap();
            let (_, _, r1) = der::read_tlv(body).unwrap();
            let (_, _, r2) = der::read_tlv(r1).unwrap();
            let (_, sec1, _) = der::read_tlv(r2).unwrap();
            sec1.to_vec()
        }
    }
}

// ---- ops ------------------------------------------------------------------------------------

fn classify<T>(o: Outcome<Option<T>>) -> (Class, Option<T>) {
    match o {
        Outcome::Done(Some(v)) => (Class::Ok, Some(v)),
        Outcome::Done(None) => (Class::Err, None),
        Outcome::Panic(_) => (Class::Panic, None),
        Outcome::Hang => (Class::Hang, None),
    }
}

fn pk_write(w: &mut World, op: &Value) -> R<Value> {
    let enc = gs(op, "enc")?.to_string();
    let wire = w.slot_of(op, "pk")?;
    let out_slot = gs(op, "out")?.to_string();
    let pt = c19_point(&wire);
    if gs(op, "impl")? == "ref" {
        if pt.is_none() {
            return Err("ref pk.write: invalid key".into());
        }
        w.put(&out_slot, ref_pk_to_doc(&enc, &pt));
        return Ok(json!({"class":"Ok"}));
    }
    w.bump(&format!("call.sm2.pk.to_{enc}"));
    let out = run_lib_norng(|| {
        let pk = Sm2PublicKey::new(&wire).ok()?;
        Some(match enc.as_str() {
            "sec1c" => pk.to_bytes(true),
            "sec1u" => pk.to_bytes(false),
            "hexc" => pk.to_hex_string(true).into_bytes(),
            "hexu" => pk.to_hex_string(false).into_bytes(),
            "spki-der" => pk.to_public_key_der().ok()?.as_bytes().to_vec(),
            _ => pk.to_public_key_pem(LineEnding::LF).ok()?.into_bytes(),
        })
    });
    let (class, doc) = classify(out);
    let case = fnv(&[b"pkwrite", enc.as_bytes(), &wire]);
    if pt.is_some() {
        let key = json!({"entry":format!("sm2.pk.to_{enc}"),"class":"valid key","outcome":class.as_str()});
        let decoded = doc.as_ref().map(|d| ref_pk_from_doc(&enc, d)).unwrap_or(None);
        w.check("C19", "O19.2-written-document-decodes", decoded.is_some() && decoded == pt, case, key.clone(), || {
            format!("{enc} document written by the library does not decode (reference reader) to the key: {:?}", doc.as_ref().map(hex::encode))
        });
        if matches!(enc.as_str(), "sec1c" | "sec1u" | "hexc" | "hexu" | "spki-der") {
            let want = ref_pk_to_doc(&enc, &pt);
            w.check("C19", "O19.2-canonical-bytes", doc.as_ref() == Some(&want), case, key, || {
                format!("{enc} bytes differ from the canonical encoding: got {:?} want {}", doc.as_ref().map(hex::encode), hex::encode(&want))
            });
        }
    }
    if let Some(d) = doc {
        w.put(&out_slot, d);
    }
    Ok(json!({"class": class.as_str()}))
}

fn pk_read(w: &mut World, op: &Value) -> R<Value> {
    let enc = gs(op, "enc")?.to_string();
    let doc = w.slot_of(op, "doc")?;
    let case = fnv(&[b"pkread", enc.as_bytes(), &doc]);
    let want = ref_pk_from_doc(&enc, &doc);
    let text = matches!(enc.as_str(), "hexc" | "hexu" | "spki-pem");
    let as_str = std::str::from_utf8(&doc).ok().map(|s| s.to_string());
    if text && as_str.is_none() {
        w.bump("probe.doc.not-utf8-undeliverable");
        return Ok(json!({"skipped":"text document is not UTF-8: cannot be handed to a &str API"}));
    }
    let entry = format!("sm2.pk.from_{enc}");
    w.bump(&format!("call.{entry}"));
    let doc_p = crate::place::Placed::new(&doc, w.next_place());
    let out = run_lib_norng(|| {
        let pk = match enc.as_str() {
            "sec1c" | "sec1u" => Sm2PublicKey::new(doc_p.as_slice()).ok()?,
            "hexc" | "hexu" => Sm2PublicKey::from_hex_string(as_str.as_ref().unwrap()).ok()?,
            "spki-der" => Sm2PublicKey::from_public_key_der(doc_p.as_slice()).ok()?,
            _ => {
                if w_flag(op, "fromstr") {
                    as_str.as_ref().unwrap().parse::<Sm2PublicKey>().ok()?
                } else {
                    Sm2PublicKey::from_public_key_pem(as_str.as_ref().unwrap()).ok()?
                }
            }
        };
        Some((glue::sm2_point_to_ref(&pk.point), pk.point.is_zero()))
    });
    let (class, got) = classify(out);
    let input_class = doc_class(&enc, &doc);
    w.check_class(&["C19", "C20"], &entry, &class, &input_class, case, "");
    let key = json!({"entry":entry,"class":input_class,"outcome":class.as_str()});
    if let Some((pt, inf)) = &got {
        let valid = !inf && rsm2::with_curve(|c| c.on_curve(pt));
        w.check("C19", "O19.3-decoded-point-valid", valid, case, key.clone(), || {
            format!("{enc} decoder returned a key that is not a point of the curve (doc {})", hex::encode(&doc))
        });
        if matches!(enc.as_str(), "sec1c" | "sec1u" | "hexc" | "hexu") {
            w.check("C19", "O19.3-encoding-validated", want.is_some(), case, key.clone(), || {
                format!("{enc} decoder accepted an encoding with a wrong length / out-of-range coordinate / off-curve point: {}", hex::encode(&doc))
            });
        }
        if want.is_some() {
            w.check("C19", "O19.1-same-key", &want == pt, case, key.clone(), || format!("{enc} decoder returned a different key than the document holds"));
        }
        if let (Some(o), true) = (op.get("out").and_then(|v| v.as_str()), pt.is_some()) {
            w.put(o, rsm2::with_curve(|c| c.encode_point(pt, false)));
        }
    }
    if strictly_valid_pk_doc(&enc, &doc).is_some() {
        w.check("C19", "O19.1-valid-document-decodes", class == Class::Ok, case, key, || {
            format!("{enc} decoder ended in {} on a valid document {}", class.as_str(), hex::encode(&doc))
        });
    }
    w.bump(if class == Class::Ok { "probe.doc.pk.accepted" } else { "probe.doc.pk.rejected" });
    Ok(json!({"class": class.as_str()}))
}

fn w_flag(op: &Value, f: &str) -> bool {
    op.get(f).and_then(|v| v.as_bool()).unwrap_or(false)
}

fn doc_class(enc: &str, doc: &[u8]) -> String {
    match enc {
        "sec1c" | "sec1u" => {
            if doc.is_empty() {
                "len=0".into()
            } else if doc.len() == 33 || doc.len() == 65 {
                "len in {33,65}".into()
            } else {
                "other length".into()
            }
        }
        "hexc" | "hexu" => {
            // classified by what the bytes are as a point encoding (the known finding on
            // Sm2PublicKey::from_hex_string is keyed on these classes)
            let b = std::str::from_utf8(doc).ok().and_then(|s| hex::decode(s).ok());
            match b {
                None => "not hex".into(),
                Some(b) => {
                    let strict = rsm2::with_curve(|c| c.decode_point(&b).is_ok());
                    if strict {
                        "hex of a valid point encoding".into()
                    } else if b.len() == 65 && b[0] == 4 && rsm2::with_curve(|c| BigUint::from_bytes_be(&b[1..33]) < c.p && BigUint::from_bytes_be(&b[33..65]) < c.p) {
                        // both coordinates are field elements, the equation does not hold
                        "hex of 04||x||y that is not a curve point".into()
                    } else {
                        "hex of an undecodable point encoding".into()
                    }
                }
            }
        }
        "hex" => {
            let ok = std::str::from_utf8(doc).ok().and_then(|s| hex::decode(s).ok());
            match ok {
                None => "not hex".into(),
                Some(b) if b.is_empty() => "hex of 0 bytes".into(),
                Some(b) if b.len() == 33 || b.len() == 65 || b.len() == 32 => "hex of a plausible length".into(),
                Some(b) if b.len() < 32 => "hex of <32 bytes".into(),
                Some(_) => "hex of another length".into(),
            }
        }
        "bytes" => {
            if doc.len() < 32 {
                "len<32".into()
            } else if doc.len() == 32 {
                "len=32".into()
            } else {
                "len>32".into()
            }
        }
        _ => "document".into(),
    }
}

fn sk_write(w: &mut World, op: &Value) -> R<Value> {
    let enc = gs(op, "enc")?.to_string();
    let d = w.slot_of(op, "d")?;
    let out_slot = gs(op, "out")?.to_string();
    if d.len() != 32 {
        return Err("sk.write: d must be 32 bytes".into());
    }
    let mut da = [0u8; 32];
    da.copy_from_slice(&d);
    if gs(op, "impl")? == "ref" {
        w.put(&out_slot, ref_sk_to_doc(&enc, &da));
        return Ok(json!({"class":"Ok"}));
    }
    w.bump(&format!("call.sm2.sk.to_{enc}"));
    let out = run_lib_norng(|| {
        let sk = Sm2PrivateKey::new(&d).ok()?;
        Some(match enc.as_str() {
            "bytes" => sk.to_bytes_be(),
            "hex" => sk.to_hex_string().into_bytes(),
            "pkcs8-der" => sk.to_pkcs8_der().ok()?.as_bytes().to_vec(),
            "pkcs8-pem" => sk.to_pkcs8_pem(LineEnding::LF).ok()?.as_bytes().to_vec(),
            _ => sk.to_sec1_der().ok()?.to_vec(),
        })
    });
    let (class, doc) = classify(out);
    let case = fnv(&[b"skwrite", enc.as_bytes(), &d]);
    let dn = BigUint::from_bytes_be(&d);
    let n = rsm2::with_curve(|c| c.n.clone());
    if !dn.is_zero() && dn < (&n - 1u32) {
        let key = json!({"entry":format!("sm2.sk.to_{enc}"),"class":"d in [1,n-2]","outcome":class.as_str()});
        let parsed = doc.as_ref().and_then(|x| ref_sk_from_doc(&enc, x));
        let want_pub = rsm2::with_curve(|c| c.encode_point(&c.mul_g(&dn), false));
        let ok = match &parsed {
            Some((dd, pubk)) => dd == &d && pubk.as_ref().map(|p| p == &want_pub).unwrap_or(true),
            None => false,
        };
        w.check("C19", "O19.2-written-document-decodes", ok, case, key, || {
            format!("{enc} private-key document written by the library does not hold d / the matching public key (reference reader): {:?}", doc.as_ref().map(hex::encode))
        });
    }
    if let Some(x) = doc {
        w.put(&out_slot, x);
    }
    Ok(json!({"class": class.as_str()}))
}

fn sk_read(w: &mut World, op: &Value) -> R<Value> {
    let enc = gs(op, "enc")?.to_string();
    let doc = w.slot_of(op, "doc")?;
    let case = fnv(&[b"skread", enc.as_bytes(), &doc]);
    let text = matches!(enc.as_str(), "hex" | "pkcs8-pem");
    let as_str = std::str::from_utf8(&doc).ok().map(|s| s.to_string());
    if text && as_str.is_none() {
        w.bump("probe.doc.not-utf8-undeliverable");
        return Ok(json!({"skipped":"text document is not UTF-8: cannot be handed to a &str API"}));
    }
    let entry = format!("sm2.sk.from_{enc}");
    w.bump(&format!("call.{entry}"));
    let doc_p = crate::place::Placed::new(&doc, w.next_place());
    let out = run_lib_norng(|| {
        let sk = match enc.as_str() {
            "bytes" => Sm2PrivateKey::new(doc_p.as_slice()).ok()?,
            "hex" => Sm2PrivateKey::from_hex_string(as_str.as_ref().unwrap()).ok()?,
            "pkcs8-der" => Sm2PrivateKey::from_pkcs8_der(doc_p.as_slice()).ok()?,
            "pkcs8-pem" => Sm2PrivateKey::from_pkcs8_pem(as_str.as_ref().unwrap()).ok()?,
            _ => {
                use pkcs8::der::Decode;
                let ec = sec1::EcPrivateKey::from_der(doc_p.as_slice()).ok()?;
                Sm2PrivateKey::try_from(ec).ok()?
            }
        };
        Some((sk.to_bytes_be(), glue::sm2_point_to_ref(&sk.public_key.point)))
    });
    let (class, got) = classify(out);
    let input_class = doc_class(&enc, &doc);
    w.check_class(&["C19", "C20"], &entry, &class, &input_class, case, "");
    let key = json!({"entry":entry,"class":input_class,"outcome":class.as_str()});
    let held = ref_sk_from_doc(&enc, &doc);
    let n = rsm2::with_curve(|c| c.n.clone());
    if let Some((d, pubpt)) = &got {
        if let Some((hd, _)) = held.as_ref().filter(|(h, _)| h.len() == 32) {
            w.check("C19", "O19.1-same-key", hd == d, case, key.clone(), || {
                format!("{enc} decoder returned d={} but the document holds {}", hex::encode(d), hex::encode(hd))
            });
        }
        if matches!(enc.as_str(), "bytes" | "hex") {
            w.check("C19", "O19.3-encoding-validated", held.as_ref().map(|(h, _)| h.len() == 32).unwrap_or(false), case, key.clone(), || {
                format!("{enc} decoder accepted a private key of the wrong length: {}", hex::encode(&doc))
            });
        }
        let dn = BigUint::from_bytes_be(d);
        let want = rsm2::with_curve(|c| c.mul_g(&(&dn % &c.n)));
        w.check("C19", "O19.1-public-matches", &want == pubpt, case, key.clone(), || format!("decoded private key d={} carries a public key that is not [d]G", hex::encode(d)));
        if let Some(o) = op.get("out_d").and_then(|v| v.as_str()) {
            w.put(o, d.clone());
        }
    }
    if let Some((hd, _)) = &held {
        let dn = BigUint::from_bytes_be(hd);
        let canonical = hd.len() == 32 && !dn.is_zero() && dn < (&n - 1u32) && {
            let mut a = [0u8; 32];
            a.copy_from_slice(hd);
            let canon = ref_sk_to_doc(&enc, &a);
            let canon_crlf: Vec<u8> = String::from_utf8_lossy(&canon).replace('\n', "\r\n").into_bytes();
            matches!(enc.as_str(), "bytes" | "hex") || doc == canon || (enc == "pkcs8-pem" && doc == canon_crlf)
        };
        if canonical && !dn.is_zero() && dn < (&n - 1u32) {
            w.check("C19", "O19.1-valid-document-decodes", class == Class::Ok, case, key, || {
                format!("{enc} decoder ended in {} on a valid document {}", class.as_str(), hex::encode(&doc))
            });
        }
    }
    w.bump(if class == Class::Ok { "probe.doc.sk.accepted" } else { "probe.doc.sk.rejected" });
    Ok(json!({"class": class.as_str()}))
}
