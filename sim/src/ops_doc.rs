use crate::world::{World, R};
use serde_json::Value;
pub fn exec(_w: &mut World, name: &str, _op: &Value) -> R<Value> { Err(format!("unknown op {name}")) }
