//! Entry points that exist only for C20 (SM4 construction / block / mode calls, the SM9
//! hash-to-range helper, the SM2 KDF and ZA helpers). Oracle: the call ends in Ok or Err.

use crate::libglue as glue;
use crate::simrng::{run_lib_norng, Class, Outcome};
use crate::world::{fnv, gs, gs_opt, gu, World, R};
use gm_sm4::{CipherMode, Sm4Cipher, Sm4CipherMode};
use serde_json::{json, Value};

pub fn exec(w: &mut World, name: &str, op: &Value) -> R<Value> {
    match name {
        "entry.sm4.new" => sm4_new(w, op),
        "entry.sm4.block" => sm4_block(w, op),
        "entry.sm4.mode" => sm4_mode(w, op),
        "entry.sm9.mod_n_from_hash" => mod_n_from_hash(w, op),
        "entry.sm2.kdf" => sm2_kdf(w, op),
        "entry.sm2.compute_za" => sm2_za(w, op),
        _ => Err(format!("unknown op {name}")),
    }
}

fn class_of<T, E>(o: &Outcome<Result<T, E>>) -> Class {
    match o {
        Outcome::Done(Ok(_)) => Class::Ok,
        Outcome::Done(Err(_)) => Class::Err,
        Outcome::Panic(_) => Class::Panic,
        Outcome::Hang => Class::Hang,
    }
}

fn len_class(n: usize, exact: usize) -> String {
    if n < exact {
        format!("len<{exact}")
    } else if n == exact {
        format!("len={exact}")
    } else {
        format!("len>{exact}")
    }
}

fn sm4_new(w: &mut World, op: &Value) -> R<Value> {
    let key = w.slot_of(op, "key")?;
    w.bump("call.sm4.cipher_new");
    let out = run_lib_norng(|| Sm4Cipher::new(&key).map(|_| ()));
    let class = class_of(&out);
    let case = fnv(&[b"sm4new", &key]);
    w.check_class(&["C20"], "sm4.cipher_new", &class, &format!("key.{}", len_class(key.len(), 16)), case, "");
    Ok(json!({"class": class.as_str()}))
}

fn sm4_block(w: &mut World, op: &Value) -> R<Value> {
    let key = w.slot_of(op, "key")?;
    let data = w.slot_of(op, "data")?;
    let dec = gs(op, "dir")? == "decrypt";
    if key.len() != 16 {
        return Err("sm4.block: key must be 16 bytes".into());
    }
    w.bump(if dec { "call.sm4.block_decrypt" } else { "call.sm4.block_encrypt" });
    let out = run_lib_norng(|| {
        let c = Sm4Cipher::new(&key).map_err(|_| ())?;
        if dec { c.decrypt(&data) } else { c.encrypt(&data) }.map(|_| ()).map_err(|_| ())
    });
    let class = class_of(&out);
    let case = fnv(&[b"sm4block", &key, &data, &[dec as u8]]);
    let entry = if dec { "sm4.block_decrypt" } else { "sm4.block_encrypt" };
    w.check_class(&["C20"], entry, &class, &format!("block.{}", len_class(data.len(), 16)), case, "");
    Ok(json!({"class": class.as_str()}))
}

fn sm4_mode(w: &mut World, op: &Value) -> R<Value> {
    let key = w.slot_of(op, "key")?;
    let data = w.slot_of(op, "data")?;
    let iv = w.slot_of(op, "iv")?;
    let mode = gs(op, "mode")?.to_string();
    let dec = gs(op, "dir")? == "decrypt";
    let mk = |m: &str| match m {
        "cfb" => CipherMode::Cfb,
        "ofb" => CipherMode::Ofb,
        "ctr" => CipherMode::Ctr,
        _ => CipherMode::Cbc,
    };
    w.bump(&format!("call.sm4.{mode}_{}", if dec { "decrypt" } else { "encrypt" }));
    let out = run_lib_norng(|| {
        let c = Sm4CipherMode::new(&key, mk(&mode)).map_err(|_| ())?;
        if dec { c.decrypt(&data, &iv) } else { c.encrypt(&data, &iv) }.map_err(|_| ())
    });
    let class = class_of(&out);
    if let (Outcome::Done(Ok(v)), Some(o)) = (&out, gs_opt(op, "out")) {
        w.put(o, v.clone());
    }
    let case = fnv(&[b"sm4mode", mode.as_bytes(), &key, &data, &iv, &[dec as u8]]);
    let dclass = if data.is_empty() {
        "data.len=0".to_string()
    } else if data.len() % 16 == 0 {
        "data.len=16k".to_string()
    } else {
        "data.len!=16k".to_string()
    };
    let ic = format!("key.{},iv.{},{}", len_class(key.len(), 16), len_class(iv.len(), 16), dclass);
    let entry = format!("sm4.{mode}_{}", if dec { "decrypt" } else { "encrypt" });
    w.check_class(&["C20"], &entry, &class, &ic, case, "");
    Ok(json!({"class": class.as_str()}))
}

fn mod_n_from_hash(w: &mut World, op: &Value) -> R<Value> {
    let data = w.slot_of(op, "data")?;
    w.bump("call.sm9.mod_n_from_hash");
    let out = run_lib_norng(|| Ok::<_, ()>(gm_sm9::fields::mod_n_from_hash(&data)));
    let class = class_of(&out);
    let case = fnv(&[b"modn", &data]);
    w.check_class(&["C20"], "sm9.mod_n_from_hash", &class, &format!("ha.{}", len_class(data.len(), 40)), case, "");
    Ok(json!({"class": class.as_str()}))
}

fn sm2_kdf(w: &mut World, op: &Value) -> R<Value> {
    let z = w.slot_of(op, "z")?;
    let klen = gu(op, "klen")? as usize;
    w.bump("call.sm2.kdf");
    let out = run_lib_norng(|| Ok::<_, ()>(gm_sm2::util::kdf(&z, klen)));
    let class = class_of(&out);
    let case = fnv(&[b"kdf", &z, &(klen as u64).to_le_bytes()]);
    w.check_class(&["C20"], "sm2.kdf", &class, if klen == 0 { "klen=0" } else { "klen>0" }, case, "");
    if let Outcome::Done(Ok(v)) = &out {
        if klen > 0 {
            // the KDF clause of C05 rides along: exactly the first klen bytes of the hash chain
            let want = crate::refmodel::sm3::kdf(&z, klen);
            let key = json!({"entry":"sm2.kdf","class":"klen>0","outcome":"Ok"});
            w.check("C05", "kdf-exact", v == &want, case, key, || format!("kdf(z, {klen}) differs from SM3(Z||1)||SM3(Z||2)|| ... truncated to klen"));
        }
    }
    Ok(json!({"class": class.as_str()}))
}

fn sm2_za(w: &mut World, op: &Value) -> R<Value> {
    let id = w.slot_of(op, "id")?;
    let pk = w.slot_of(op, "pk")?;
    let via = gs_opt(op, "pk_via").unwrap_or("struct");
    let ids = match String::from_utf8(id.clone()) {
        Ok(s) => s,
        Err(_) => return Ok(json!({"skipped":"id not utf-8"})),
    };
    let point = match via {
        "inf" => glue::sm2_point_infinity(),
        _ => match glue::sm2_point_from_wire_unchecked(&pk) {
            Some(p) => p,
            None => return Ok(json!({"skipped":"pk wire not 65 bytes"})),
        },
    };
    w.bump("call.sm2.compute_za");
    let out = run_lib_norng(|| gm_sm2::util::compute_za(&ids, &point).map(|_| ()));
    let class = class_of(&out);
    let case = fnv(&[b"za", &id, &pk, via.as_bytes()]);
    let ic = if id.len() > 8191 { "id.len>8191" } else { "id.len<=8191" };
    w.check_class(&["C20"], "sm2.compute_za", &class, ic, case, "");
    Ok(json!({"class": class.as_str()}))
}
