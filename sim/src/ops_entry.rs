//! Entry points that exist only for C20 (SM4 construction / block / mode calls, the SM9
//! hash-to-range helper, the SM2 KDF and ZA helpers). Oracle: the call ends in Ok or Err.

use crate::libglue as glue;
use crate::simrng::{run_lib_norng, Class, Outcome};
use crate::world::{fnv, gs, gs_opt, gu, World, R};
use gm_sm4::{CipherMode, Sm4Cipher, Sm4CipherMode};
use serde_json::{json, Value};

pub fn exec(w: &mut World, name: &str, op: &Value) -> R<Value> {
    match name {
        "entry.sm4.new" => sm4_new(w, op),
        "entry.sm4.block" => sm4_block(w, op),
        "entry.sm4.mode" => sm4_mode(w, op),
        "entry.sm9.mod_n_from_hash" => mod_n_from_hash(w, op),
        "entry.sm2.kdf" => sm2_kdf(w, op),
        "entry.sm2.compute_za" => sm2_za(w, op),
        "entry.soak.sm2" => soak_sm2(w, op),
        _ => Err(format!("unknown op {name}")),
    }
}

fn class_of<T, E>(o: &Outcome<Result<T, E>>) -> Class {
    match o {
        Outcome::Done(Ok(_)) => Class::Ok,
        Outcome::Done(Err(_)) => Class::Err,
        Outcome::Panic(_) => Class::Panic,
        Outcome::Hang => Class::Hang,
    }
}

fn len_class(n: usize, exact: usize) -> String {
    if n < exact {
        format!("len<{exact}")
    } else if n == exact {
        format!("len={exact}")
    } else {
        format!("len>{exact}")
    }
}

fn sm4_new(w: &mut World, op: &Value) -> R<Value> {
    let key = w.slot_of(op, "key")?;
    w.bump("call.sm4.cipher_new");
    let key_p = crate::place::Placed::new(&key, w.next_place());
    let out = run_lib_norng(|| Sm4Cipher::new(key_p.as_slice()).map(|_| ()));
    let class = class_of(&out);
    let case = fnv(&[b"sm4new", &key]);
    w.check_class(&["C20"], "sm4.cipher_new", &class, &format!("key.{}", len_class(key.len(), 16)), case, "");
    Ok(json!({"class": class.as_str()}))
}

fn sm4_block(w: &mut World, op: &Value) -> R<Value> {
    let key = w.slot_of(op, "key")?;
    let data = w.slot_of(op, "data")?;
    let dec = gs(op, "dir")? == "decrypt";
    if key.len() != 16 {
        return Err("sm4.block: key must be 16 bytes".into());
    }
    w.bump(if dec { "call.sm4.block_decrypt" } else { "call.sm4.block_encrypt" });
    let data_p = crate::place::Placed::new(&data, w.next_place());
    let out = run_lib_norng(|| {
        let c = Sm4Cipher::new(&key).map_err(|_| ())?;
        if dec { c.decrypt(data_p.as_slice()) } else { c.encrypt(data_p.as_slice()) }.map(|_| ()).map_err(|_| ())
    });
    let class = class_of(&out);
    let case = fnv(&[b"sm4block", &key, &data, &[dec as u8]]);
    let entry = if dec { "sm4.block_decrypt" } else { "sm4.block_encrypt" };
    w.check_class(&["C20"], entry, &class, &format!("block.{}", len_class(data.len(), 16)), case, "");
    Ok(json!({"class": class.as_str()}))
}

fn sm4_mode(w: &mut World, op: &Value) -> R<Value> {
    let key = w.slot_of(op, "key")?;
    let data = w.slot_of(op, "data")?;
    let iv = w.slot_of(op, "iv")?;
    let mode = gs(op, "mode")?.to_string();
    let dec = gs(op, "dir")? == "decrypt";
    let mk = |m: &str| match m {
        "cfb" => CipherMode::Cfb,
        "ofb" => CipherMode::Ofb,
        "ctr" => CipherMode::Ctr,
        _ => CipherMode::Cbc,
    };
    w.bump(&format!("call.sm4.{mode}_{}", if dec { "decrypt" } else { "encrypt" }));
    let (data_p, iv_p) = (crate::place::Placed::new(&data, w.next_place()), crate::place::Placed::new(&iv, w.next_place()));
    let out = run_lib_norng(|| {
        let c = Sm4CipherMode::new(&key, mk(&mode)).map_err(|_| ())?;
        if dec { c.decrypt(data_p.as_slice(), iv_p.as_slice()) } else { c.encrypt(data_p.as_slice(), iv_p.as_slice()) }.map_err(|_| ())
    });
    let class = class_of(&out);
    if let (Outcome::Done(Ok(v)), Some(o)) = (&out, gs_opt(op, "out")) {
        w.put(o, v.clone());
    }
    let case = fnv(&[b"sm4mode", mode.as_bytes(), &key, &data, &iv, &[dec as u8]]);
    let dclass = if data.is_empty() {
        "data.len=0".to_string()
    } else if data.len() % 16 == 0 {
        "data.len=16k".to_string()
    } else {
        "data.len!=16k".to_string()
    };
    let ic = format!("key.{},iv.{},{}", len_class(key.len(), 16), len_class(iv.len(), 16), dclass);
    let entry = format!("sm4.{mode}_{}", if dec { "decrypt" } else { "encrypt" });
    w.check_class(&["C20"], &entry, &class, &ic, case, "");
    Ok(json!({"class": class.as_str()}))
}

fn mod_n_from_hash(w: &mut World, op: &Value) -> R<Value> {
    let data = w.slot_of(op, "data")?;
    w.bump("call.sm9.mod_n_from_hash");
    let data_p = crate::place::Placed::new(&data, w.next_place());
    let out = run_lib_norng(|| Ok::<_, ()>(gm_sm9::fields::mod_n_from_hash(data_p.as_slice())));
    let class = class_of(&out);
    let case = fnv(&[b"modn", &data]);
    w.check_class(&["C20"], "sm9.mod_n_from_hash", &class, &format!("ha.{}", len_class(data.len(), 40)), case, "");
    if let (Outcome::Done(Ok(v)), true) = (&out, data.len() >= 40) {
        // riding along (C16 is not claimed: this shows up under other_property_observations only):
        // the value is (Ha mod (N-1)) + 1 for the first 40 bytes
        use num_bigint::BigUint;
        let n = crate::refmodel::sm9::with(|s| s.n.clone());
        let want = (BigUint::from_bytes_be(&data[..40]) % (&n - 1u32)) + 1u32;
        let got = glue::limbs_to_big(v);
        let key = json!({"entry":"sm9.mod_n_from_hash","class":"ha.len>=40","outcome":"Ok"});
        w.check("C16", "hash-to-range-exact", got == want, case, key, || format!("mod_n_from_hash({}) = {got:x}, want {want:x}", hex::encode(&data[..40])));
    }
    Ok(json!({"class": class.as_str()}))
}

fn sm2_kdf(w: &mut World, op: &Value) -> R<Value> {
    let z = w.slot_of(op, "z")?;
    let klen = gu(op, "klen")? as usize;
    w.bump("call.sm2.kdf");
    let z_p = crate::place::Placed::new(&z, w.next_place());
    let out = run_lib_norng(|| Ok::<_, ()>(gm_sm2::util::kdf(z_p.as_slice(), klen)));
    let class = class_of(&out);
    let case = fnv(&[b"kdf", &z, &(klen as u64).to_le_bytes()]);
    w.check_class(&["C20"], "sm2.kdf", &class, if klen == 0 { "klen=0" } else { "klen>0" }, case, "");
    if let Outcome::Done(Ok(v)) = &out {
        if klen > 0 {
            // the KDF clause of C05 rides along: exactly the first klen bytes of the hash chain
            let want = crate::refmodel::sm3::kdf(&z, klen);
            let key = json!({"entry":"sm2.kdf","class":"klen>0","outcome":"Ok"});
            w.check("C05", "kdf-exact", v == &want, case, key, || format!("kdf(z, {klen}) differs from SM3(Z||1)||SM3(Z||2)|| ... truncated to klen"));
        }
    }
    Ok(json!({"class": class.as_str()}))
}

fn sm2_za(w: &mut World, op: &Value) -> R<Value> {
    let id = w.slot_of(op, "id")?;
    let pk = w.slot_of(op, "pk")?;
    let via = gs_opt(op, "pk_via").unwrap_or("struct");
    let ids = match String::from_utf8(id.clone()) {
        Ok(s) => s,
        Err(_) => return Ok(json!({"skipped":"id not utf-8"})),
    };
    let point = match via {
        "inf" => glue::sm2_point_infinity(),
        _ => match glue::sm2_point_from_wire_unchecked(&pk) {
            Some(p) => p,
            None => return Ok(json!({"skipped":"pk wire not 65 bytes"})),
        },
    };
    w.bump("call.sm2.compute_za");
    let out = run_lib_norng(|| gm_sm2::util::compute_za(&ids, &point).map(|_| ()));
    let class = class_of(&out);
    let case = fnv(&[b"za", &id, &pk, via.as_bytes()]);
    let ic = if id.len() > 8191 { "id.len>8191" } else { "id.len<=8191" };
    w.check_class(&["C20"], "sm2.compute_za", &class, ic, case, "");
    Ok(json!({"class": class.as_str()}))
}

/// A long history in ONE process and thread: `n` keys, each with its own identity and message, each
/// signs, verifies, encrypts and decrypts once. Whatever the library keeps between calls (tables,
/// memoised values, counters) sees `n` distinct (identity, key) pairs. Every call must return, and
/// (riding along for C03/C05) every round trip must hold. A call that never returns is caught by the
/// watchdog, which this op re-arms before every library call.
fn soak_sm2(w: &mut World, op: &Value) -> R<Value> {
    use crate::simrng::{run_lib, RngScript};
    use gm_sm2::key::{Sm2Model, Sm2PrivateKey};
    use num_bigint::BigUint;
    let n = gu(op, "n")? as usize;
    let seed = gu(op, "seed")?;
    if gs_opt(op, "kind") == Some("cheap") {
        return soak_cheap(w, n, seed);
    }
    let order = crate::refmodel::sm2::with_curve(|c| c.n.clone());
    let mut p = crate::prng::Prng::new(seed);
    let base = BigUint::from_bytes_be(&p.bytes32()) % (&order - 2u32);
    let mut done = 0usize;
    let mut bad: Option<(usize, String)> = None;
    for k in 0..n {
        crate::runner::touch();
        let d = crate::refmodel::sm2::be32(&((&base + BigUint::from(k as u64) * 0x1_0000_0001u64) % (&order - 2u32) + 1u32));
        let id = glue::static_id(format!("soak-{seed:x}-{k}").as_bytes()).unwrap();
        let msg: Vec<u8> = (0..(k % 48) + 1).map(|j| (k + j) as u8).collect();
        let script = RngScript { cands: vec![], filler: seed ^ (k as u64).wrapping_mul(0x9E37_79B9_7F4A_7C15), real: false };
        let (out, _) = run_lib(&script, || -> Result<(bool, bool), String> {
            let sk = Sm2PrivateKey::new(&d).map_err(|e| format!("{e:?}"))?;
            let sig = sk.sign(Some(id), &msg).map_err(|e| format!("sign: {e:?}"))?;
            let v = sk.public_key.verify(Some(id), &msg, &sig).is_ok();
            let ct = sk.public_key.encrypt(&msg, false, Sm2Model::C1C3C2).map_err(|e| format!("encrypt: {e:?}"))?;
            let pt = sk.decrypt(&ct, false, Sm2Model::C1C3C2).map_err(|e| format!("decrypt: {e:?}"))?;
            Ok((v, pt == msg))
        });
        match out {
            Outcome::Done(Ok((true, true))) => done += 1,
            Outcome::Done(Ok((v, r))) => bad = Some((k, format!("round trip: verify(sign)={v} decrypt(encrypt)==M: {r}"))),
            Outcome::Done(Err(e)) => bad = Some((k, format!("Err {e}"))),
            Outcome::Panic(m) => bad = Some((k, format!("panic {m}"))),
            Outcome::Hang => bad = Some((k, "random source drained (hang)".into())),
        }
        if bad.is_some() {
            break;
        }
    }
    w.bump_by("call.sm2.soak-calls", 4 * done as u64);
    w.bump_by("history.soak-distinct-keys", done as u64);
    let case = fnv(&[b"soak", &seed.to_le_bytes(), &(n as u64).to_le_bytes()]);
    let key = json!({"entry":"sm2.sign+verify+encrypt+decrypt","class":"long-history","outcome": if bad.is_some() { "fails" } else { "Ok" }});
    w.check("C20", "O20.long-history", bad.is_none(), case, key, || {
        let (k, e) = bad.clone().unwrap();
        format!("after {k} earlier keys in the same process, call group {k} ended in: {e}")
    });
    Ok(json!({"done": done}))
}

/// The same idea on the entry points that cost microseconds: the ZA helper with `n` distinct
/// identities over 256 public keys, the KDF with `n` distinct Z, SM4 with `n` distinct keys
/// (construct, encrypt a block, decrypt it), SM9's hash-to-range with `n` distinct inputs.
fn soak_cheap(w: &mut World, n: usize, seed: u64) -> R<Value> {
    use gm_sm2::key::Sm2PrivateKey;
    let mut p = crate::prng::Prng::new(seed);
    let mut points = vec![];
    for _ in 0..256 {
        let mut d = p.bytes32();
        d[0] &= 0x7f;
        d[31] |= 1;
        match run_lib_norng(|| Sm2PrivateKey::new(&d).map(|sk| sk.public_key.point)) {
            Outcome::Done(Ok(pt)) => points.push(pt),
            _ => return Err("soak: key set-up failed".into()),
        }
    }
    let mut bad: Option<(usize, String)> = None;
    let mut done = 0usize;
    for k in 0..n {
        crate::runner::touch();
        let id = format!("soak-{seed:x}-{k}");
        let pt = points[k % points.len()];
        let mut key = [0u8; 16];
        key[..8].copy_from_slice(&(k as u64).to_le_bytes());
        key[8..].copy_from_slice(&seed.to_le_bytes());
        let block = p.bytes32()[..16].to_vec();
        let out = run_lib_norng(|| -> Result<bool, String> {
            gm_sm2::util::compute_za(&id, &pt).map_err(|e| format!("compute_za: {e:?}"))?;
            let z = gm_sm2::util::kdf(id.as_bytes(), (k % 97) + 1);
            let c = Sm4Cipher::new(&key).map_err(|e| format!("sm4 new: {e:?}"))?;
            let ct = c.encrypt(&block).map_err(|e| format!("sm4 encrypt: {e:?}"))?;
            let back = c.decrypt(&ct).map_err(|e| format!("sm4 decrypt: {e:?}"))?;
            let mut ha = [0u8; 40];
            ha[..32].copy_from_slice(&gm_sm3::sm3_hash(id.as_bytes()));
            ha[32..].copy_from_slice(&(k as u64).to_le_bytes());
            let _ = gm_sm9::fields::mod_n_from_hash(&ha);
            Ok(back == block && z.len() == (k % 97) + 1)
        });
        match out {
            Outcome::Done(Ok(true)) => done += 1,
            Outcome::Done(Ok(false)) => bad = Some((k, "SM4 block round trip or KDF length wrong".into())),
            Outcome::Done(Err(e)) => bad = Some((k, format!("Err {e}"))),
            Outcome::Panic(m) => bad = Some((k, format!("panic {m}"))),
            Outcome::Hang => bad = Some((k, "hang".into())),
        }
        if bad.is_some() {
            break;
        }
    }
    w.bump_by("call.soak-cheap-calls", 5 * done as u64);
    w.bump_by("history.soak-cheap-distinct-inputs", done as u64);
    let case = fnv(&[b"soak-cheap", &seed.to_le_bytes(), &(n as u64).to_le_bytes()]);
    let key = json!({"entry":"sm2.compute_za+kdf,sm4.block,sm9.mod_n_from_hash","class":"long-history","outcome": if bad.is_some() { "fails" } else { "Ok" }});
    w.check("C20", "O20.long-history", bad.is_none(), case, key, || {
        let (k, e) = bad.clone().unwrap();
        format!("after {k} earlier distinct inputs in the same process, call group {k} ended in: {e}")
    });
    Ok(json!({"done": done}))
}
