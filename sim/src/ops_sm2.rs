//! SM2 ops: each executes on the chosen implementation (library or reference) and cross-checks
//! the library against the reference on exactly the delivered inputs. The history and the
//! faults come from the world; the oracles here are local to the op.

use crate::libglue as glue;
use crate::objs::{KexImpl, KexMeta, KexObj};
use crate::refmodel::sm2::{self as rsm2, Order, Pt};
use crate::simrng::{run_lib, run_lib_norng, Class, Outcome, RngLog, RngScript};
use crate::world::{fnv, gb, grng, gs, gs_opt, gu, World, R};
use gm_sm2::key::{Sm2Model, Sm2PrivateKey, Sm2PublicKey};
use num_bigint::BigUint;
use num_traits::Zero;
use serde_json::{json, Value};

const DEFAULT_ID: &[u8] = b"1234567812345678";

pub fn exec(w: &mut World, name: &str, op: &Value) -> R<Value> {
    match name {
        "sm2.keygen" => keygen(w, op),
        "sm2.derive_pk" => derive_pk(w, op),
        "sm2.sign" => sign(w, op),
        "sm2.verify" => verify(w, op),
        "sm2.encrypt" => encrypt(w, op),
        "sm2.decrypt" => decrypt(w, op),
        "sm2.kex.new" => kex_new(w, op),
        "sm2.kex.1" => kex_1(w, op),
        "sm2.kex.2" => kex_2(w, op),
        "sm2.kex.3" => kex_3(w, op),
        "sm2.kex.4" => kex_4(w, op),
        "sm2.kex.end" => kex_end(w, op),
        _ => Err(format!("unknown op {name}")),
    }
}

fn n() -> BigUint {
    rsm2::with_curve(|c| c.n.clone())
}

fn in_range(k: &BigUint) -> bool {
    !k.is_zero() && k < &n()
}

pub fn model(order: &str) -> R<(Order, Sm2Model)> {
    match order {
        "C1C2C3" => Ok((Order::C1C2C3, Sm2Model::C1C2C3)),
        "C1C3C2" => Ok((Order::C1C3C2, Sm2Model::C1C3C2)),
        _ => Err("bad order".into()),
    }
}

/// How a public key on the wire is handed to the library.
pub fn lib_pk(bytes: &[u8], via: &str) -> Result<Sm2PublicKey, String> {
    match via {
        "struct" if bytes.len() == 65 => Ok(Sm2PublicKey { point: glue::sm2_point_from_wire_unchecked(bytes).unwrap() }),
        "inf" => Ok(Sm2PublicKey { point: glue::sm2_point_infinity() }),
        _ => Sm2PublicKey::new(bytes).map_err(|e| e.to_string()),
    }
}

/// Decode a delivered public key with the library in its own panic capture: a crash of the
/// decoder is a C20 matter (entry sm2.public_key_new), not one of the operation that wanted the key.
pub fn lib_pk_captured(w: &mut World, bytes: &[u8], via: &str, case: u64) -> Option<Sm2PublicKey> {
    let out = run_lib_norng(|| lib_pk(bytes, via));
    match out {
        Outcome::Done(Ok(pk)) => Some(pk),
        Outcome::Done(Err(_)) => None,
        Outcome::Panic(_) | Outcome::Hang => {
            let ic = if bytes.is_empty() { "len=0" } else { "len>0" };
            w.check_class(&["C20"], "sm2.public_key_new", &Class::Panic, ic, case, "");
            None
        }
    }
}

fn ref_pk(bytes: &[u8], via: &str) -> Pt {
    if via == "inf" {
        return None;
    }
    rsm2::with_curve(|c| c.decode_point(bytes).ok().flatten())
}

/// C14 oracles shared by every randomised library call: the scalar actually used (recovered from
/// the call's output by the reference) was offered in this call, is in [1, n-1], is new.
fn c14_used(w: &mut World, site: &str, log: &RngLog, used: Option<&BigUint>, case: u64) {
    w.offered(&log.offered);
    let key = |class: &str| json!({"entry": site, "class": class, "outcome": "Ok"});
    w.check("C14", "drew-fresh", !log.offered.is_empty(), case, key("no-draw"), || {
        format!("{site}: completed without drawing from the random source")
    });
    match used {
        None => {
            w.check("C14", "used-was-offered", false, case, key("not-offered"), || {
                format!("{site}: the scalar used matches none of the {} candidates offered in this call", log.offered.len())
            });
        }
        Some(k) => {
            let kb = rsm2::be32(k);
            let offered = log.offered.iter().any(|c| c == &kb);
            w.check("C14", "used-was-offered", offered, case, key("not-offered"), || {
                format!("{site}: used scalar {} was not offered in this call", hex::encode(kb))
            });
            w.check("C14", "used-in-range", in_range(k), case, key("out-of-range"), || {
                format!("{site}: used scalar {} is outside [1, n-1]", hex::encode(kb))
            });
            w.scalar_used(site, &kb, case);
            w.observed.push(("sm2".to_string(), kb.to_vec()));
        }
    }
    for c in &log.offered {
        let v = BigUint::from_bytes_be(c);
        if !in_range(&v) {
            w.bump("rngfault.out-of-range-offered");
        }
    }
}

fn hang_check(w: &mut World, site: &str, class: &Class, log: &RngLog, case: u64) {
    // C14-M2: with few out-of-range candidates a call must finish within the draw budget.
    let oor = log.offered.iter().filter(|c| !in_range(&BigUint::from_bytes_be(*c))).count();
    if oor <= 8 {
        let key = json!({"entry": site, "class": "draw-budget", "outcome": class.as_str()});
        w.check("C14", "draw-budget", *class != Class::Hang, case, key, || {
            format!("{site}: consumed more than {} candidates ({} out of range)", crate::simrng::DRAW_BUDGET, oor)
        });
    }
}

// ---------------------------------------------------------------------------------------------

fn keygen(w: &mut World, op: &Value) -> R<Value> {
    let script = grng(op)?;
    let imp = gs(op, "impl")?;
    let case = fnv(&[b"keygen", op.to_string().as_bytes()]);
    if imp == "ref" {
        let d = script
            .stream()
            .iter()
            .map(|c| BigUint::from_bytes_be(c))
            .find(|k| !k.is_zero() && k < &(n() - 1u32))
            .ok_or("ref keygen: no usable candidate")?;
        let pk = rsm2::with_curve(|c| c.encode_point(&c.mul_g(&d), false));
        w.put(gs(op, "d")?, rsm2::be32(&d).to_vec());
        w.put(gs(op, "pk")?, pk);
        return Ok(json!({"class": "Ok"}));
    }
    w.bump("call.sm2.gen_keypair");
    let (out, log) = run_lib(&script, gm_sm2::key::gen_keypair);
    let (class, res) = match out {
        Outcome::Done(Ok((pk, sk))) => (Class::Ok, Some((pk, sk))),
        Outcome::Done(Err(_)) => (Class::Err, None),
        Outcome::Panic(_) => (Class::Panic, None),
        Outcome::Hang => (Class::Hang, None),
    };
    hang_check(w, "sm2.gen_keypair", &class, &log, case);
    if let Some((pk, sk)) = res {
        let d = glue::limbs_to_big(&sk.d);
        c14_used(w, "sm2.gen_keypair", &log, Some(&d), case);
        let pkb = pk.to_bytes(false);
        let want = rsm2::with_curve(|c| c.mul_g(&d));
        let ok = want.is_some() && rsm2::with_curve(|c| c.encode_point(&want, false)) == pkb;
        w.check("C03", "keypair-matches", ok, case, json!({"entry":"sm2.gen_keypair","class":"any","outcome":"Ok"}), || {
            format!("gen_keypair: public key {} is not [d]G for d={}", hex::encode(&pkb), hex::encode(rsm2::be32(&d)))
        });
        w.put(gs(op, "d")?, rsm2::be32(&d).to_vec());
        w.put(gs(op, "pk")?, pkb);
    }
    Ok(json!({"class": class.as_str(), "draws": log.offered.len()}))
}

fn derive_pk(w: &mut World, op: &Value) -> R<Value> {
    let d = w.slot_of(op, "d")?;
    let imp = gs(op, "impl")?;
    let case = fnv(&[b"derive", &d]);
    let dn = BigUint::from_bytes_be(&d);
    let refpk = rsm2::with_curve(|c| c.mul_g(&(&dn % &c.n)));
    if imp == "ref" {
        let pk = refpk.clone().ok_or("ref derive_pk: d = 0 mod n")?;
        w.put(gs(op, "pk")?, rsm2::with_curve(|c| c.encode_point(&Some(pk), gb(op, "comp"))));
        return Ok(json!({"class":"Ok"}));
    }
    w.bump("call.sm2.private_key_new");
    let out = run_lib_norng(|| Sm2PrivateKey::new(&d).map(|sk| sk.public_key.to_bytes(gb(op, "comp"))));
    let class = match &out {
        Outcome::Done(Ok(_)) => Class::Ok,
        Outcome::Done(Err(_)) => Class::Err,
        Outcome::Panic(_) => Class::Panic,
        Outcome::Hang => Class::Hang,
    };
    if let Outcome::Done(Ok(pkb)) = out {
        if d.len() == 32 && in_range(&dn) {
            let want = rsm2::with_curve(|c| c.encode_point(&refpk, gb(op, "comp")));
            w.check("C03", "pk-matches-d", want == pkb, case, json!({"entry":"sm2.private_key_new","class":"d in [1,n-1]","outcome":"Ok"}), || {
                format!("public key for d={} is {} want {}", hex::encode(&d), hex::encode(&pkb), hex::encode(&want))
            });
        }
        w.put(gs(op, "pk")?, pkb);
    } else {
        // a private key in [1, n-2] (GB/T 32918.1, 6.1) handed over as 32 bytes is a valid key: the
        // validating constructor must take it (C19: "every private key from its bytes"), and must
        // never crash on any other
        let n = n();
        let valid = d.len() == 32 && !dn.is_zero() && dn <= &n - 2u32;
        w.check_class(&["C20"], "sm2.private_key_new", &class, if valid { "d in [1,n-2]" } else { "d outside [1,n-2]" }, case, "");
        if valid {
            let key = json!({"entry":"sm2.private_key_new","class":"d in [1,n-2]","outcome":class.as_str()});
            w.check("C19", "O19.1-valid-private-key-accepted", false, case, key, || format!("Sm2PrivateKey::new refuses the valid private key d={} ({})", hex::encode(&d), class.as_str()));
        }
    }
    Ok(json!({"class": class.as_str()}))
}

fn id_bytes(idslot: &Option<Vec<u8>>) -> Vec<u8> {
    idslot.clone().unwrap_or_else(|| DEFAULT_ID.to_vec())
}

fn sign(w: &mut World, op: &Value) -> R<Value> {
    let script = grng(op)?;
    let imp = gs(op, "impl")?;
    let d = w.slot_of(op, "d")?;
    let idslot = w.slot_opt(op, "id")?;
    let msg = w.slot_of(op, "msg")?;
    let out_slot = gs(op, "sig")?.to_string();
    if d.len() != 32 {
        return Err("sign: d must be 32 bytes".into());
    }
    let dn = BigUint::from_bytes_be(&d);
    let idb = id_bytes(&idslot);
    let case = fnv(&[b"sign", &d, &idb, &msg, op.get("rng").map(|v| v.to_string()).unwrap_or_default().as_bytes()]);
    if imp == "ref" {
        let sig = rsm2::with_curve(|c| {
            script.stream().iter().find_map(|k| rsm2::sign_with_k(c, &dn, &idb, &msg, &BigUint::from_bytes_be(k)))
        })
        .ok_or("ref sign: no usable candidate")?;
        w.put(&out_slot, sig.to_vec());
        return Ok(json!({"class":"Ok"}));
    }
    let lib_id: Option<&'static str> = match &idslot {
        None => None,
        Some(b) => match glue::static_id(b) {
            Some(s) => Some(s),
            None => return Ok(json!({"skipped":"id not utf-8"})),
        },
    };
    w.bump("call.sm2.sign");
    let msg_p = crate::place::Placed::new(&msg, w.next_place());
    let (out, log) = run_lib(&script, || Sm2PrivateKey::new(&d).and_then(|sk| sk.sign(lib_id, msg_p.as_slice())));
    let (class, sig) = match out {
        Outcome::Done(Ok(s)) => (Class::Ok, Some(s)),
        Outcome::Done(Err(_)) => (Class::Err, None),
        Outcome::Panic(_) => (Class::Panic, None),
        Outcome::Hang => (Class::Hang, None),
    };
    let d_class = d_class(&dn);
    // C20 termination clause: signing with any accepted key terminates
    w.check_class(&["C20"], "sm2.sign", &class, &d_class, case, "");
    let in_domain = !dn.is_zero() && dn < (n() - 1u32) && idb.len() <= 8191;
    if in_domain {
        hang_check(w, "sm2.sign", &class, &log, case);
        let k3 = |c: &str| json!({"entry":"sm2.sign","class":c,"outcome":class.as_str()});
        w.check("C03", "sign-succeeds", class == Class::Ok, case, k3("in-domain"), || {
            format!("sign ended in {} for in-domain inputs", class.as_str())
        });
    }
    if let Some(sig) = sig {
        if in_domain {
            let k3 = |c: &str| json!({"entry":"sm2.sign","class":c,"outcome":"Ok"});
            let shape = sig.len() == 64 && {
                let r = BigUint::from_bytes_be(&sig[..32]);
                let s = BigUint::from_bytes_be(&sig[32..]);
                in_range(&r) && in_range(&s)
            };
            w.check("C03", "O3.2-shape", shape, case, k3("shape"), || format!("signature {} is not 64 bytes with r,s in [1,n-1]", hex::encode(&sig)));
            let (pk, refok) = rsm2::with_curve(|c| {
                let pk = c.mul_g(&dn);
                let ok = rsm2::verify(c, &pk, &idb, &msg, &sig);
                (pk, ok)
            });
            let _ = pk;
            w.check("C03", "O3.3-ref-accepts", refok, case, k3("ref-verify"), || {
                format!("reference verifier rejects library signature {} (d={}, id={}, msg={})", hex::encode(&sig), hex::encode(&d), hex::encode(&idb), hex::encode(&msg))
            });
            // exactness for the nonce actually used
            let k = rsm2::with_curve(|c| rsm2::recover_k(c, &dn, &sig));
            if let Some(k) = &k {
                let want = rsm2::with_curve(|c| rsm2::sign_with_k(c, &dn, &idb, &msg, k));
                let kb = rsm2::be32(k);
                let offered = log.offered.iter().any(|c| c == &kb);
                if offered {
                    w.check("C03", "O3.5-exact", want.map(|s| s.to_vec()) == Some(sig.clone()), case, k3("exact"), || {
                        format!("signature differs from GB/T 32918.2 value for nonce {}", hex::encode(kb))
                    });
                }
                c14_used(w, "sm2.sign", &log, Some(k), case);
            }
        }
        w.put(&out_slot, sig);
    }
    Ok(json!({"class": class.as_str(), "draws": log.offered.len()}))
}

pub fn d_class(dn: &BigUint) -> String {
    let nn = n();
    if dn.is_zero() {
        "d=0".into()
    } else if dn == &(&nn - 1u32) {
        "d=n-1".into()
    } else if dn >= &nn {
        if ((dn + 1u32) % &nn).is_zero() {
            "d>=n,d=-1 mod n".into()
        } else if (dn % &nn).is_zero() {
            "d>=n,d=0 mod n".into()
        } else {
            "d>=n".into()
        }
    } else {
        "d in [1,n-2]".into()
    }
}

fn verify(w: &mut World, op: &Value) -> R<Value> {
    let pkb = w.slot_of(op, "pk")?;
    let via = gs_opt(op, "pk_via").unwrap_or("new").to_string();
    let idslot = w.slot_opt(op, "id")?;
    let msg = w.slot_of(op, "msg")?;
    let sig = w.slot_of(op, "sig")?;
    let idb = id_bytes(&idslot);
    let case = fnv(&[b"verify", &pkb, via.as_bytes(), &idb, &msg, &sig]);
    let refpk = ref_pk(&pkb, &via);
    let ref_ok = rsm2::with_curve(|c| rsm2::verify(c, &refpk, &idb, &msg, &sig));
    if gs(op, "impl")? == "ref" {
        return Ok(json!({"class": if ref_ok {"Ok"} else {"Err"}}));
    }
    let lib_id: Option<&'static str> = match &idslot {
        None => None,
        Some(b) => match glue::static_id(b) {
            Some(s) => Some(s),
            None => return Ok(json!({"skipped":"id not utf-8"})),
        },
    };
    w.bump("call.sm2.verify");
    let lpk = lib_pk_captured(w, &pkb, &via, case);
    let (msg_p, sig_p) = (crate::place::Placed::new(&msg, w.next_place()), crate::place::Placed::new(&sig, w.next_place()));
    let out = run_lib_norng(|| lpk.ok_or(()).and_then(|pk| pk.verify(lib_id, msg_p.as_slice(), sig_p.as_slice()).map_err(|_| ())));
    let class = match out {
        Outcome::Done(Ok(())) => Class::Ok,
        Outcome::Done(Err(())) => Class::Err,
        Outcome::Panic(_) => Class::Panic,
        Outcome::Hang => Class::Hang,
    };
    let sig_class = if sig.len() < 64 {
        "sig.len<64"
    } else if sig.len() > 64 {
        "sig.len>64"
    } else {
        "sig.len=64"
    };
    let input_class = sig_class.to_string();
    w.check_class(&["C04", "C20"], "sm2.verify", &class, &input_class, case, "");
    let key = json!({"entry":"sm2.verify","class":input_class,"outcome":class.as_str()});
    w.check("C04", "O4.1-sound", !(class == Class::Ok && !ref_ok), case, key.clone(), || {
        format!(
            "library accepts what the reference verifier rejects: pk={} via={} id={} msg={} sig={}",
            hex::encode(&pkb), via, hex::encode(&idb), hex::encode(&msg), hex::encode(&sig)
        )
    });
    if idb.len() <= 8191 {
        w.check("C03", "O3.4-complete", !(ref_ok && class != Class::Ok), case, key, || {
            format!(
                "library rejects ({}) a signature the reference verifier accepts: pk={} id={} msg={} sig={}",
                class.as_str(), hex::encode(&pkb), hex::encode(&idb), hex::encode(&msg), hex::encode(&sig)
            )
        });
    }
    if class == Class::Ok {
        w.bump("probe.sm2.verify.accepted");
    } else {
        w.bump("probe.sm2.verify.rejected");
    }
    Ok(json!({"class": class.as_str(), "ref": ref_ok}))
}

// ---------------------------------------------------------------------------------------------

/// Find which offered candidate produced C1 (reference computes [k]G for each in-range offer).
fn find_k_for_c1(log: &RngLog, c1: &[u8], compressed: bool) -> Option<BigUint> {
    rsm2::with_curve(|c| {
        for cand in &log.offered {
            let k = BigUint::from_bytes_be(cand);
            if k.is_zero() {
                continue;
            }
            let pt = c.mul_g(&k);
            if pt.is_some() && c.encode_point(&pt, compressed) == c1 {
                return Some(k);
            }
        }
        None
    })
}

fn encrypt(w: &mut World, op: &Value) -> R<Value> {
    let script = grng(op)?;
    let imp = gs(op, "impl")?;
    let pkb = w.slot_of(op, "pk")?;
    let via = gs_opt(op, "pk_via").unwrap_or("new").to_string();
    let msg = w.slot_of(op, "msg")?;
    let (order, lmodel) = model(gs(op, "order")?)?;
    let comp = gb(op, "comp");
    let asn1 = gb(op, "asn1");
    let out_slot = gs(op, "ct")?.to_string();
    let d_opt = w.slot_opt(op, "d")?;
    let refpk = ref_pk(&pkb, &via);
    let case = fnv(&[b"encrypt", &pkb, &msg, gs(op, "order")?.as_bytes(), &[comp as u8, asn1 as u8], op.get("rng").map(|v| v.to_string()).unwrap_or_default().as_bytes()]);
    if imp == "ref" {
        let ct = rsm2::with_curve(|c| {
            script.stream().iter().find_map(|k| rsm2::encrypt_with_k(c, &refpk, &msg, &BigUint::from_bytes_be(k), order, comp))
        })
        .ok_or("ref encrypt: no usable candidate")?;
        let ct = if asn1 { crate::refmodel::der::sm2_cipher_to_der(&ct, order, comp).ok_or("ref asn1")? } else { ct };
        w.put(&out_slot, ct);
        return Ok(json!({"class":"Ok"}));
    }
    w.bump(if asn1 { "call.sm2.encrypt_asn1" } else { "call.sm2.encrypt" });
    let lpk = lib_pk_captured(w, &pkb, &via, case);
    let msg_p = crate::place::Placed::new(&msg, w.next_place());
    let (out, log) = run_lib(&script, || {
        lpk.ok_or(()).and_then(|pk| {
            if asn1 { pk.encrypt_asn1(msg_p.as_slice(), comp, lmodel) } else { pk.encrypt(msg_p.as_slice(), comp, lmodel) }.map_err(|_| ())
        })
    });
    let (class, ct) = match out {
        Outcome::Done(Ok(c)) => (Class::Ok, Some(c)),
        Outcome::Done(Err(())) => (Class::Err, None),
        Outcome::Panic(_) => (Class::Panic, None),
        Outcome::Hang => (Class::Hang, None),
    };
    let in_domain = refpk.is_some() && !msg.is_empty();
    let site = if asn1 { "sm2.encrypt_asn1" } else { "sm2.encrypt" };
    let prop = if asn1 { "C19" } else { "C05" };
    if via == "inf" && !msg.is_empty() {
        // GB/T 32918.4 step A3: S = [h]P_B is the point at infinity -> report an error. A key struct
        // holding infinity can be handed over by any caller (the field is public).
        w.check_class(&["C20"], site, &class, "public key = point at infinity", case, "");
        let key = json!({"entry":site,"class":"public key = point at infinity","outcome":class.as_str()});
        w.check("C05", "O5.6-infinity-key-refused", class != Class::Ok, case, key, || format!("{site} returned a ciphertext for the point at infinity as public key (step A3 demands an error)"));
        w.bump("probe.sm2.encrypt.infinity-key");
    }
    if in_domain {
        hang_check(w, site, &class, &log, case);
        // C20 termination clause: encrypting with any accepted key terminates
        w.check_class(&["C20"], site, &class, "valid key, non-empty msg", case, "");
        let key = json!({"entry":site,"class":"in-domain","outcome":class.as_str()});
        w.check(prop, "encrypt-succeeds", class == Class::Ok, case, key, || format!("{site} ended in {}", class.as_str()));
    }
    if let Some(ct) = ct {
        if in_domain {
            let key = |c: &str| json!({"entry":site,"class":c,"outcome":"Ok"});
            // raw form of the ciphertext, to find the nonce and compare
            let c1len = if comp { 33 } else { 65 };
            let k = if asn1 {
                // for ASN.1 output the ephemeral point is identified through the reference DER of each offered candidate
                rsm2::with_curve(|c| {
                    log.offered.iter().map(|b| BigUint::from_bytes_be(b)).find(|k| {
                        rsm2::encrypt_with_k(c, &refpk, &msg, k, order, comp)
                            .and_then(|raw| crate::refmodel::der::sm2_cipher_to_der(&raw, order, comp))
                            .map(|d| d == ct)
                            .unwrap_or(false)
                    })
                })
            } else if ct.len() >= c1len {
                find_k_for_c1(&log, &ct[..c1len], comp)
            } else {
                None
            };
            match &k {
                Some(k) => {
                    let want = rsm2::with_curve(|c| rsm2::encrypt_with_k(c, &refpk, &msg, k, order, comp));
                    let want = if asn1 { want.and_then(|r| crate::refmodel::der::sm2_cipher_to_der(&r, order, comp)) } else { want };
                    let oracle = if asn1 { "O19.4-der-exact" } else { "O5.2-exact" };
                    w.check(prop, oracle, want.as_ref() == Some(&ct), case, key("exact"), || {
                        format!("ciphertext differs from the standard's value for k={}: got {} want {}", hex::encode(rsm2::be32(k)), hex::encode(&ct), want.map(hex::encode).unwrap_or("<pick another k>".into()))
                    });
                }
                None if asn1 => {
                    // cannot attribute: report as non-conforming DER (C19) with the first in-range candidate's expected value
                    let want = rsm2::with_curve(|c| {
                        log.offered.iter().map(|b| BigUint::from_bytes_be(b)).find_map(|k| {
                            rsm2::encrypt_with_k(c, &refpk, &msg, &k, order, comp).and_then(|raw| crate::refmodel::der::sm2_cipher_to_der(&raw, order, comp))
                        })
                    });
                    w.check("C19", "O19.4-der-exact", false, case, key("exact"), || {
                        format!("ASN.1 ciphertext matches the GM/T 0009 encoding for none of the offered nonces: got {} e.g. want {}", hex::encode(&ct), want.map(hex::encode).unwrap_or_default())
                    });
                }
                None => {}
            }
            if !asn1 {
                c14_used(w, site, &log, k.as_ref(), case);
            } else if let Some(k) = &k {
                c14_used(w, site, &log, Some(k), case);
            }
            if let Some(d) = &d_opt {
                let dn = BigUint::from_bytes_be(d);
                let raw = if asn1 { crate::refmodel::der::sm2_cipher_from_der(&ct, order, comp) } else { Some(ct.clone()) };
                let dec = raw.and_then(|r| rsm2::with_curve(|c| rsm2::decrypt(c, &dn, &r, order, comp).ok()));
                let oracle = if asn1 { "O19.4-ref-decodes" } else { "O5.3-ref-decrypts" };
                w.check(prop, oracle, dec.as_ref() == Some(&msg), case, key("ref-decrypt"), || {
                    format!("reference decryptor does not recover the message from library ciphertext {}", hex::encode(&ct))
                });
            }
            if msg.len() % 32 == 0 {
                w.bump("probe.sm2.klen-multiple-of-32");
            }
            if log.offered.len() > 1 {
                w.bump("probe.sm2.encrypt.retry");
            }
        }
        w.put(&out_slot, ct);
    }
    Ok(json!({"class": class.as_str(), "draws": log.offered.len()}))
}

fn decrypt(w: &mut World, op: &Value) -> R<Value> {
    let d = w.slot_of(op, "d")?;
    let ct = w.slot_of(op, "ct")?;
    let (order, lmodel) = model(gs(op, "order")?)?;
    let comp = gb(op, "comp");
    let asn1 = gb(op, "asn1");
    if d.len() != 32 {
        return Err("decrypt: d must be 32 bytes".into());
    }
    let dn = BigUint::from_bytes_be(&d);
    let case = fnv(&[b"decrypt", &d, &ct, gs(op, "order")?.as_bytes(), &[comp as u8, asn1 as u8]]);
    let raw = if asn1 { crate::refmodel::der::sm2_cipher_from_der(&ct, order, comp) } else { Some(ct.clone()) };
    let refres: Result<Vec<u8>, &'static str> = match &raw {
        None => Err("bad der"),
        Some(r) => rsm2::with_curve(|c| rsm2::decrypt(c, &dn, r, order, comp)),
    };
    if gs(op, "impl")? == "ref" {
        if let (Ok(m), Some(out)) = (&refres, gs_opt(op, "out")) {
            w.put(out, m.clone());
        }
        return Ok(json!({"class": if refres.is_ok() {"Ok"} else {"Err"}}));
    }
    let site = if asn1 { "sm2.decrypt_asn1" } else { "sm2.decrypt" };
    w.bump(&format!("call.{site}"));
    let ct_p = crate::place::Placed::new(&ct, w.next_place());
    let out = run_lib_norng(|| {
        Sm2PrivateKey::new(&d).map_err(|_| ()).and_then(|sk| {
            if asn1 { sk.decrypt_asn1(ct_p.as_slice(), comp, lmodel) } else { sk.decrypt(ct_p.as_slice(), comp, lmodel) }.map_err(|_| ())
        })
    });
    let (class, m) = match out {
        Outcome::Done(Ok(m)) => (Class::Ok, Some(m)),
        Outcome::Done(Err(())) => (Class::Err, None),
        Outcome::Panic(_) => (Class::Panic, None),
        Outcome::Hang => (Class::Hang, None),
    };
    let c1len = if comp { 33 } else { 65 };
    let input_class = if asn1 {
        if raw.is_none() { "der-malformed".to_string() } else { "der-wellformed".to_string() }
    } else if ct.len() < c1len {
        "ct.len<C1".to_string()
    } else if ct.len() < c1len + 32 {
        "ct.len<C1+C3".to_string()
    } else if ct.len() == c1len + 32 {
        "ct.len=C1+C3 (empty C2)".to_string()
    } else {
        "ct.len>C1+C3".to_string()
    };
    let tamper_prop = if asn1 { "C19" } else { "C06" };
    w.check_class(&[tamper_prop, "C20"], site, &class, &input_class, case, "");
    let key = json!({"entry":site,"class":input_class,"outcome":class.as_str()});
    let sound = match (&m, &refres) {
        (Some(m), Ok(r)) => m == r,
        (Some(_), Err(_)) => false,
        (None, _) => true,
    };
    w.check(tamper_prop, "O6.1-sound", sound, case, key.clone(), || {
        format!(
            "library returns plaintext {} where the reference decryptor says {:?}: d={} ct={} order={:?} comp={}",
            m.as_ref().map(hex::encode).unwrap_or_default(), refres.as_ref().map(hex::encode), hex::encode(&d), hex::encode(&ct), order, comp
        )
    });
    let complete_prop = if asn1 { "C19" } else { "C05" };
    if in_range(&dn) {
        w.check(complete_prop, "O5.4-complete", !(refres.is_ok() && class != Class::Ok), case, key, || {
            format!("library rejects ({}) a ciphertext the reference decrypts: d={} ct={}", class.as_str(), hex::encode(&d), hex::encode(&ct))
        });
    }
    if let (Some(m), Some(out)) = (&m, gs_opt(op, "out")) {
        w.put(out, m.clone());
    }
    w.bump(if class == Class::Ok { "probe.sm2.decrypt.accepted" } else { "probe.sm2.decrypt.rejected" });
    Ok(json!({"class": class.as_str(), "ref": refres.is_ok()}))
}

// ---------------------------------------------------------------------------------------------
// key agreement

fn point_via(bytes: &[u8], via: &str) -> Result<gm_sm2::p256_ecc::Point, ()> {
    if let Some(h) = via.strip_prefix("jac:") {
        // the same point in another Jacobian representation, handed over as a struct
        if bytes.len() != 65 {
            return Err(());
        }
        let z = BigUint::parse_bytes(h.as_bytes(), 16).ok_or(())?;
        if z.is_zero() {
            return Err(());
        }
        return Ok(glue::sm2_point_jacobian(&BigUint::from_bytes_be(&bytes[1..33]), &BigUint::from_bytes_be(&bytes[33..65]), &z));
    }
    match via {
        "struct" if bytes.len() == 65 => Ok(glue::sm2_point_from_wire_unchecked(bytes).unwrap()),
        "inf" => Ok(glue::sm2_point_infinity()),
        _ => Sm2PublicKey::new(bytes).map(|p| p.point).map_err(|_| ()),
    }
}

fn kex_new(w: &mut World, op: &Value) -> R<Value> {
    let obj = gs(op, "obj")?.to_string();
    let imp = gs(op, "impl")?;
    let initiator = gs(op, "role")? == "A";
    let klen = gu(op, "klen")? as usize;
    let d = w.slot_of(op, "d")?;
    let pk = w.slot_of(op, "pk")?;
    let id = w.slot_opt(op, "id")?;
    let peer_id = w.slot_opt(op, "peer_id")?;
    let peer_pk = w.slot_of(op, "peer_pk")?;
    let dn = BigUint::from_bytes_be(&d);
    let meta = KexMeta {
        initiator,
        klen,
        d: dn,
        id_self: id_bytes(&id),
        id_peer: id_bytes(&peer_id),
        pk_peer: ref_pk(&peer_pk, "new"),
        r: None,
        peer_r_wire: None,
        own_r_wire: None,
        completed: None,
        key: None,
    };
    if imp == "ref" {
        w.objs.kex.insert(obj, KexObj { imp: KexImpl::Ref, meta });
        return Ok(json!({"class":"Ok"}));
    }
    let ids: Option<String> = match &id {
        None => None,
        Some(b) => Some(String::from_utf8(b.clone()).map_err(|_| "kex id not utf-8")?),
    };
    let pids: Option<String> = match &peer_id {
        None => None,
        Some(b) => Some(String::from_utf8(b.clone()).map_err(|_| "kex id not utf-8")?),
    };
    w.bump("call.sm2.exchange_new");
    let out = run_lib_norng(|| {
        let sk = Sm2PrivateKey::new(&d).map_err(|_| ())?;
        let pkl = Sm2PublicKey::new(&pk).map_err(|_| ())?;
        let ppk = Sm2PublicKey::new(&peer_pk).map_err(|_| ())?;
        gm_sm2::exchange::Exchange::new(klen, ids.as_deref(), &pkl, &sk, pids.as_deref(), &ppk).map_err(|_| ())
    });
    let class = match out {
        Outcome::Done(Ok(ex)) => {
            w.objs.kex.insert(obj, KexObj { imp: KexImpl::Lib(ex), meta });
            Class::Ok
        }
        Outcome::Done(Err(())) => Class::Err,
        Outcome::Panic(_) => Class::Panic,
        Outcome::Hang => Class::Hang,
    };
    Ok(json!({"class": class.as_str()}))
}

fn take_kex(w: &mut World, obj: &str) -> R<KexObj> {
    w.objs.kex.remove(obj).ok_or_else(|| format!("kex object '{obj}' undefined"))
}

fn first_usable_r(script: &RngScript) -> Option<BigUint> {
    script.stream().iter().map(|c| BigUint::from_bytes_be(c)).find(|k| in_range(k))
}

fn find_r_for_point(log: &RngLog, wire: &[u8]) -> Option<BigUint> {
    find_k_for_c1(log, wire, false)
}

/// A: produce R_A
fn kex_1(w: &mut World, op: &Value) -> R<Value> {
    let script = grng(op)?;
    let name = gs(op, "obj")?.to_string();
    let out_slot = gs(op, "out")?.to_string();
    let mut o = take_kex(w, &name)?;
    let case = fnv(&[b"kex1", op.to_string().as_bytes()]);
    let res = match &mut o.imp {
        KexImpl::Ref => {
            let r = first_usable_r(&script).ok_or("ref kex: no usable candidate")?;
            let wire = rsm2::with_curve(|c| c.encode_point(&c.mul_g(&r), false));
            o.meta.r = Some(r);
            o.meta.own_r_wire = Some(wire.clone());
            w.put(&out_slot, wire);
            json!({"class":"Ok"})
        }
        KexImpl::Lib(ex) => {
            w.bump("call.sm2.exchange_1");
            let (out, log) = run_lib(&script, || ex.exchange_1());
            let (class, pt) = match out {
                Outcome::Done(Ok(p)) => (Class::Ok, Some(p)),
                Outcome::Done(Err(_)) => (Class::Err, None),
                Outcome::Panic(_) => (Class::Panic, None),
                Outcome::Hang => (Class::Hang, None),
            };
            hang_check(w, "sm2.exchange_1", &class, &log, case);
            w.check_class(&["C15"], "sm2.exchange_1", &class, "any", case, "");
            if let Some(p) = pt {
                let wire = p.to_byte_be(false);
                let r = find_r_for_point(&log, &wire);
                c14_used(w, "sm2.exchange_1", &log, r.as_ref(), case);
                o.meta.r = r;
                o.meta.own_r_wire = Some(wire.clone());
                w.put(&out_slot, wire);
            }
            json!({"class": class.as_str()})
        }
    };
    w.objs.kex.insert(name, o);
    Ok(res)
}

fn ref_derive(meta: &KexMeta, peer_wire: &[u8], peer_via: &str) -> Option<rsm2::KexOut> {
    let r = meta.r.as_ref()?;
    let peer_pt = ref_pk(peer_wire, peer_via);
    rsm2::with_curve(|c| {
        rsm2::kex_derive(c, meta.initiator, &meta.d, r, &meta.id_self, &meta.id_peer, &meta.pk_peer, &peer_pt, meta.klen)
    })
}

/// B: receive R_A, produce (R_B, S_B)
fn kex_2(w: &mut World, op: &Value) -> R<Value> {
    let script = grng(op)?;
    let name = gs(op, "obj")?.to_string();
    let ra = w.slot_of(op, "ra")?;
    let via = gs_opt(op, "ra_via").unwrap_or("new").to_string();
    let out_rb = gs(op, "out_rb")?.to_string();
    let out_sb = gs(op, "out_sb")?.to_string();
    let mut o = take_kex(w, &name)?;
    let case = fnv(&[b"kex2", &ra, via.as_bytes(), op.to_string().as_bytes()]);
    o.meta.peer_r_wire = Some(ra.clone());
    let ra_valid = ref_pk(&ra, &via).is_some();
    let res = match &mut o.imp {
        KexImpl::Ref => {
            let r = first_usable_r(&script).ok_or("ref kex: no usable candidate")?;
            o.meta.r = Some(r.clone());
            let wire = rsm2::with_curve(|c| c.encode_point(&c.mul_g(&r), false));
            o.meta.own_r_wire = Some(wire.clone());
            match ref_derive(&o.meta, &ra, &via) {
                Some(out) => {
                    o.meta.key = Some(out.key.clone());
                    w.put(&out_rb, wire);
                    w.put(&out_sb, out.s_b.to_vec());
                    json!({"class":"Ok"})
                }
                None => {
                    o.meta.completed = Some(false);
                    json!({"class":"Err"})
                }
            }
        }
        KexImpl::Lib(ex) => {
            w.bump("call.sm2.exchange_2");
            let (out, log) = run_lib(&script, || point_via(&ra, &via).and_then(|p| ex.exchange_2(&p).map_err(|_| ())));
            let (class, val) = match out {
                Outcome::Done(Ok(v)) => (Class::Ok, Some(v)),
                Outcome::Done(Err(())) => (Class::Err, None),
                Outcome::Panic(_) => (Class::Panic, None),
                Outcome::Hang => (Class::Hang, None),
            };
            hang_check(w, "sm2.exchange_2", &class, &log, case);
            let ic = if ra_valid { "R_A on curve" } else { "R_A invalid" };
            w.check_class(&["C15"], "sm2.exchange_2", &class, ic, case, "");
            let key = json!({"entry":"sm2.exchange_2","class":ic,"outcome":class.as_str()});
            w.check("C15", "O15.4-offcurve-rejected", ra_valid || class != Class::Ok, case, key.clone(), || {
                format!("exchange_2 accepted an R_A that is not a valid curve point: {}", hex::encode(&ra))
            });
            // on a re-used object a library may legitimately refuse to run again: completeness is
            // demanded on fresh objects only (whatever it does accept must still be right)
            let reused = gb(op, "reused");
            if ra_valid && !reused {
                w.check("C15", "O15.1-step2-succeeds", class == Class::Ok, case, key.clone(), || format!("exchange_2 ended in {} on a valid R_A", class.as_str()));
            }
            if let Some((rb, sb)) = val {
                let wire = rb.to_byte_be(false);
                let r = find_r_for_point(&log, &wire);
                c14_used(w, "sm2.exchange_2", &log, r.as_ref(), case);
                o.meta.r = r;
                o.meta.own_r_wire = Some(wire.clone());
                let libkey = ex.verif_shared_key().map(|k| k.to_vec());
                if ra_valid {
                    if let Some(want) = ref_derive(&o.meta, &ra, &via) {
                        w.check("C15", "O15.2-S_B-conforms", want.s_b == sb, case, key.clone(), || {
                            format!("S_B {} differs from GB/T 32918.3 value {}", hex::encode(sb), hex::encode(want.s_b))
                        });
                        w.check("C15", "O15.2-K_B-conforms", libkey.as_ref() == Some(&want.key), case, key.clone(), || {
                            format!("K_B {} differs from GB/T 32918.3 value {}", libkey.as_ref().map(hex::encode).unwrap_or_default(), hex::encode(&want.key))
                        });
                    }
                }
                o.meta.key = libkey;
                w.put(&out_rb, wire);
                w.put(&out_sb, sb.to_vec());
            } else {
                o.meta.completed = Some(false);
            }
            json!({"class": class.as_str()})
        }
    };
    w.objs.kex.insert(name, o);
    Ok(res)
}

/// A: receive (R_B, S_B), check, produce S_A
fn kex_3(w: &mut World, op: &Value) -> R<Value> {
    let name = gs(op, "obj")?.to_string();
    let rb = w.slot_of(op, "rb")?;
    let sb = w.slot_of(op, "sb")?;
    let via = gs_opt(op, "rb_via").unwrap_or("new").to_string();
    let out_sa = gs(op, "out_sa")?.to_string();
    let mut o = take_kex(w, &name)?;
    let case = fnv(&[b"kex3", &rb, &sb, via.as_bytes(), op.to_string().as_bytes()]);
    o.meta.peer_r_wire = Some(rb.clone());
    let rb_valid = ref_pk(&rb, &via).is_some();
    let want = ref_derive(&o.meta, &rb, &via);
    let ref_accepts = sb.len() == 32 && want.as_ref().map(|x| x.s_b[..] == sb[..]).unwrap_or(false);
    let res = match &mut o.imp {
        KexImpl::Ref => {
            if ref_accepts {
                let x = want.unwrap();
                o.meta.key = Some(x.key.clone());
                o.meta.completed = Some(true);
                w.put(&out_sa, x.s_a.to_vec());
                json!({"class":"Ok"})
            } else {
                o.meta.completed = Some(false);
                json!({"class":"Err"})
            }
        }
        KexImpl::Lib(ex) => {
            if sb.len() != 32 {
                // the API takes [u8; 32]; a wrong-length S_B cannot be handed over at all
                o.meta.completed = Some(false);
                w.objs.kex.insert(name, o);
                return Ok(json!({"skipped":"S_B not 32 bytes"}));
            }
            let mut sba = [0u8; 32];
            sba.copy_from_slice(&sb);
            w.bump("call.sm2.exchange_3");
            let out = run_lib_norng(|| point_via(&rb, &via).and_then(|p| ex.exchange_3(&p, sba).map_err(|_| ())));
            let (class, sa) = match out {
                Outcome::Done(Ok(v)) => (Class::Ok, Some(v)),
                Outcome::Done(Err(())) => (Class::Err, None),
                Outcome::Panic(_) => (Class::Panic, None),
                Outcome::Hang => (Class::Hang, None),
            };
            let ic = if rb_valid { "R_B on curve" } else { "R_B invalid" };
            w.check_class(&["C15"], "sm2.exchange_3", &class, ic, case, "");
            let key = json!({"entry":"sm2.exchange_3","class":ic,"outcome":class.as_str()});
            w.check("C15", "O15.4-offcurve-rejected", rb_valid || class != Class::Ok, case, key.clone(), || {
                format!("exchange_3 accepted an R_B that is not a valid curve point: {}", hex::encode(&rb))
            });
            if o.meta.r.is_some() {
                w.check("C15", "O15.3-tamper-detected", !(class == Class::Ok && !ref_accepts), case, key.clone(), || {
                    format!("exchange_3 accepted (R_B,S_B) that the reference initiator rejects: R_B={} S_B={}", hex::encode(&rb), hex::encode(&sb))
                });
                w.check("C15", "O15.1-step3-succeeds", gb(op, "reused") || !(ref_accepts && class != Class::Ok), case, key.clone(), || {
                    format!("exchange_3 ended in {} on (R_B,S_B) that the reference initiator accepts", class.as_str())
                });
            }
            if let Some(sa) = sa {
                let libkey = ex.verif_shared_key().map(|k| k.to_vec());
                if let (true, Some(x)) = (ref_accepts, &want) {
                    w.check("C15", "O15.2-S_A-conforms", x.s_a == sa, case, key.clone(), || {
                        format!("S_A {} differs from GB/T 32918.3 value {}", hex::encode(sa), hex::encode(x.s_a))
                    });
                    w.check("C15", "O15.2-K_A-conforms", libkey.as_ref() == Some(&x.key), case, key.clone(), || {
                        format!("K_A {} differs from GB/T 32918.3 value {}", libkey.as_ref().map(hex::encode).unwrap_or_default(), hex::encode(&x.key))
                    });
                }
                o.meta.key = libkey;
                o.meta.completed = Some(true);
                w.put(&out_sa, sa.to_vec());
                w.bump("probe.sm2.kex.initiator-accepted");
            } else {
                o.meta.completed = Some(false);
                w.bump("probe.sm2.kex.initiator-rejected");
            }
            json!({"class": class.as_str()})
        }
    };
    w.objs.kex.insert(name, o);
    Ok(res)
}

/// B: receive S_A (and its stored copy of R_A), final check
fn kex_4(w: &mut World, op: &Value) -> R<Value> {
    let name = gs(op, "obj")?.to_string();
    let sa = w.slot_of(op, "sa")?;
    let ra_stored = w.slot_of(op, "ra")?;
    let via = gs_opt(op, "ra_via").unwrap_or("struct").to_string();
    let mut o = take_kex(w, &name)?;
    let case = fnv(&[b"kex4", &sa, &ra_stored, op.to_string().as_bytes()]);
    // reference responder: S_2 from the R_A it received in step 2
    let step2_ra = o.meta.peer_r_wire.clone().unwrap_or_default();
    let want = ref_derive(&o.meta, &step2_ra, "new");
    let ref_accepts = sa.len() == 32 && want.as_ref().map(|x| x.s_a[..] == sa[..]).unwrap_or(false);
    let res = match &o.imp {
        KexImpl::Ref => {
            o.meta.completed = Some(ref_accepts);
            json!({"class":"Ok", "accepted": ref_accepts})
        }
        KexImpl::Lib(ex) => {
            if sa.len() != 32 || o.meta.own_r_wire.is_none() {
                o.meta.completed = Some(false);
                w.objs.kex.insert(name, o);
                return Ok(json!({"skipped":"S_A not 32 bytes or step 2 not completed"}));
            }
            let mut saa = [0u8; 32];
            saa.copy_from_slice(&sa);
            w.bump("call.sm2.exchange_4");
            let out = run_lib_norng(|| point_via(&ra_stored, &via).and_then(|p| ex.exchange_4(saa, &p).map_err(|_| ())));
            let (class, acc) = match out {
                Outcome::Done(Ok(b)) => (Class::Ok, b),
                Outcome::Done(Err(())) => (Class::Err, false),
                Outcome::Panic(_) => (Class::Panic, false),
                Outcome::Hang => (Class::Hang, false),
            };
            w.check_class(&["C15"], "sm2.exchange_4", &class, "any", case, "");
            let key = json!({"entry":"sm2.exchange_4","class":"any","outcome":class.as_str()});
            w.check("C15", "O15.3-tamper-detected", !(acc && !ref_accepts), case, key.clone(), || {
                format!("exchange_4 accepted an S_A the reference responder rejects: S_A={}", hex::encode(&sa))
            });
            let stored_same = ra_stored == step2_ra;
            if stored_same {
                w.check("C15", "O15.1-step4-succeeds", gb(op, "reused") || !(ref_accepts && !acc), case, key, || {
                    format!("exchange_4 returned {}/{} on an S_A the reference responder accepts", class.as_str(), acc)
                });
            } else {
                w.check("C15", "O15.3-stored-RA-altered", !acc, case, key, || {
                    "exchange_4 accepted although its stored copy of R_A differs from the one used in step 2".to_string()
                });
            }
            o.meta.completed = Some(acc);
            w.bump(if acc { "probe.sm2.kex.responder-accepted" } else { "probe.sm2.kex.responder-rejected" });
            json!({"class": class.as_str(), "accepted": acc})
        }
    };
    w.objs.kex.insert(name, o);
    Ok(res)
}

/// End of a session: if both parties accepted, they must hold the same key of the requested length.
fn kex_end(w: &mut World, op: &Value) -> R<Value> {
    let a = take_kex(w, gs(op, "a")?)?;
    let b = take_kex(w, gs(op, "b")?)?;
    let case = fnv(&[b"kexend", op.to_string().as_bytes(), &a.meta.key.clone().unwrap_or_default(), &b.meta.key.clone().unwrap_or_default()]);
    let both = a.meta.completed == Some(true) && b.meta.completed == Some(true);
    if both {
        let same = a.meta.key.is_some() && a.meta.key == b.meta.key && a.meta.key.as_ref().map(|k| k.len()) == Some(a.meta.klen);
        let key = json!({"entry":"sm2.kex","class":"both-accepted","outcome":"Ok"});
        w.check("C15", "O15.1-keys-agree", same, case, key, || {
            format!("both parties accepted but hold K_A={} K_B={} (klen {})", a.meta.key.as_ref().map(hex::encode).unwrap_or_default(), b.meta.key.as_ref().map(hex::encode).unwrap_or_default(), a.meta.klen)
        });
        w.bump("probe.sm2.kex.completed");
    } else {
        w.bump("probe.sm2.kex.aborted");
    }
    // the objects stay alive: a scheduler may run the protocol again on the same pair
    w.objs.kex.insert(gs(op, "a")?.to_string(), a);
    w.objs.kex.insert(gs(op, "b")?.to_string(), b);
    Ok(json!({"completed": both}))
}
