//! SM9 ops (KGC, signer/verifier, encryptor/decryptor, key-exchange parties), each playable by
//! the library or by the reference, with the library cross-checked against the reference on the
//! delivered bytes. Wire forms: G1 = 04||x||y (65 bytes); G2 = 04||x1||x0||y1||y0 (129 bytes,
//! GM/T 0044 order: coefficient of u first); signature = h(32)||S(65); ciphertext = C1||C3||C2.

use crate::libglue as glue;
use crate::refmodel::sm9::{self as rsm9, F12, G1, G2};
use crate::simrng::{run_lib, run_lib_norng, Class, Outcome, RngLog, RngScript};
use crate::world::{fnv, grng, gs, gs_opt, gu, World, R};
use gm_sm9::key::{Sm9EncKey, Sm9EncMasterKey, Sm9SignKey, Sm9SignMasterKey};
use num_bigint::BigUint;
use num_traits::Zero;
use serde_json::{json, Value};
use std::cell::RefCell;
use std::collections::HashMap;

pub fn exec(w: &mut World, name: &str, op: &Value) -> R<Value> {
    match name {
        "sm9.master" => master(w, op),
        "sm9.master_pub" => master_pub(w, op),
        "sm9.extract" => extract(w, op),
        "sm9.sign" => sign(w, op),
        "sm9.verify" => verify(w, op),
        "sm9.encrypt" => encrypt(w, op),
        "sm9.soak" => soak(w, op),
        "sm9.decrypt" => decrypt(w, op),
        "sm9.kex.1a" => kex_1a(w, op),
        "sm9.kex.1b" => kex_1b(w, op),
        "sm9.kex.2a" => kex_2a(w, op),
        "sm9.kex.end" => kex_end(w, op),
        _ => Err(format!("unknown op {name}")),
    }
}

thread_local! {
    // memo of e(P1, Ppub-s) / e(Ppub-e, P2) in the reference (pure function of the key bytes)
    static G_CACHE: RefCell<HashMap<Vec<u8>, Option<F12>>> = RefCell::new(HashMap::new());
    // memo of reference verdicts (pure functions of the delivered bytes): the genuine delivery is
    // repeated around every faulted one
    static REF_DEC: RefCell<HashMap<Vec<u8>, Result<Vec<u8>, &'static str>>> = RefCell::new(HashMap::new());
    static REF_VER: RefCell<HashMap<Vec<u8>, bool>> = RefCell::new(HashMap::new());
}

fn memo_key(parts: &[&[u8]]) -> Vec<u8> {
    let mut k = vec![];
    for p in parts {
        k.extend_from_slice(&(p.len() as u32).to_le_bytes());
        k.extend_from_slice(p);
    }
    k
}

fn order() -> BigUint {
    rsm9::with(|s| s.n.clone())
}
fn in_range(k: &BigUint) -> bool {
    !k.is_zero() && k < &order()
}

pub fn g2_wire(q: &G2) -> Vec<u8> {
    let (x, y) = match q.as_ref() {
        Some(v) => v,
        None => return vec![0u8], // infinity, as in SEC1
    };
    let mut v = vec![4u8];
    for c in [&x.1, &x.0, &y.1, &y.0] {
        v.extend_from_slice(&rsm9::be32(c));
    }
    v
}
/// no validation
pub fn g2_unwire(b: &[u8]) -> Option<G2> {
    if b.len() != 129 {
        return None;
    }
    let f = |i: usize| BigUint::from_bytes_be(&b[1 + 32 * i..33 + 32 * i]);
    Some(Some(((f(1), f(0)), (f(3), f(2)))))
}
pub fn g1_unwire(b: &[u8]) -> Option<G1> {
    if b.len() != 65 {
        return None;
    }
    Some(Some((BigUint::from_bytes_be(&b[1..33]), BigUint::from_bytes_be(&b[33..65]))))
}

fn g_sign(ppubs_wire: &[u8]) -> Option<F12> {
    let k = [b"s", ppubs_wire].concat();
    if let Some(v) = G_CACHE.with(|c| c.borrow().get(&k).cloned()) {
        return v;
    }
    let q = g2_unwire(ppubs_wire)?;
    let v = rsm9::with(|s| s.pairing(&s.g1, &q));
    G_CACHE.with(|c| c.borrow_mut().insert(k, v.clone()));
    v
}
fn g_enc(ppube_wire: &[u8]) -> Option<F12> {
    let k = [b"e", ppube_wire].concat();
    if let Some(v) = G_CACHE.with(|c| c.borrow().get(&k).cloned()) {
        return v;
    }
    let p = g1_unwire(ppube_wire)?;
    let v = rsm9::with(|s| s.pairing(&p, &s.g2));
    G_CACHE.with(|c| c.borrow_mut().insert(k, v.clone()));
    v
}

fn lib_twist(b: &[u8]) -> Option<gm_sm9::points::TwistPoint> {
    Some(glue::sm9_twist_from_ref(&g2_unwire(b)?))
}
fn lib_point(b: &[u8]) -> Option<gm_sm9::points::Point> {
    glue::sm9_point_from_wire_unchecked(b)
}

fn c14_used(w: &mut World, site: &str, log: &RngLog, used: Option<&BigUint>, case: u64) {
    w.offered(&log.offered);
    let key = |class: &str| json!({"entry": site, "class": class, "outcome": "Ok"});
    w.check("C14", "drew-fresh", !log.offered.is_empty(), case, key("no-draw"), || format!("{site}: completed without drawing from the random source"));
    match used {
        None => w.check("C14", "used-was-offered", false, case, key("not-offered"), || {
            format!("{site}: the scalar used matches none of the {} candidates offered in this call", log.offered.len())
        }),
        Some(k) => {
            let kb = rsm9::be32(k);
            let offered = log.offered.iter().any(|c| c == &kb);
            w.check("C14", "used-was-offered", offered, case, key("not-offered"), || format!("{site}: used scalar {} was not offered in this call", hex::encode(kb)));
            w.check("C14", "used-in-range", in_range(k), case, key("out-of-range"), || format!("{site}: used scalar {} is outside [1, N-1]", hex::encode(kb)));
            w.scalar_used(site, &kb, case);
            w.observed.push(("sm9".to_string(), kb.to_vec()));
        }
    }
    for c in &log.offered {
        if !in_range(&BigUint::from_bytes_be(c)) {
            w.bump("rngfault.out-of-range-offered");
        }
    }
}

fn hang_check(w: &mut World, site: &str, class: &Class, log: &RngLog, case: u64) {
    let oor = log.offered.iter().filter(|c| !in_range(&BigUint::from_bytes_be(*c))).count();
    if oor <= 8 {
        let key = json!({"entry": site, "class": "draw-budget", "outcome": class.as_str()});
        w.check("C14", "draw-budget", *class != Class::Hang, case, key, || {
            format!("{site}: consumed more than {} candidates ({} out of range)", crate::simrng::DRAW_BUDGET, oor)
        });
    }
}

fn classify<T>(o: Outcome<Option<T>>) -> (Class, Option<T>) {
    match o {
        Outcome::Done(Some(v)) => (Class::Ok, Some(v)),
        Outcome::Done(None) => (Class::Err, None),
        Outcome::Panic(_) => (Class::Panic, None),
        Outcome::Hang => (Class::Hang, None),
    }
}

// ---------------------------------------------------------------------------------------------
// KGC

fn prop_of(kind: &str) -> &'static str {
    match kind {
        "sign" => "C09",
        "enc" => "C10",
        _ => "C17",
    }
}

fn master(w: &mut World, op: &Value) -> R<Value> {
    let script = grng(op)?;
    let kind = gs(op, "kind")?;
    let imp = gs(op, "impl")?;
    let case = fnv(&[b"sm9master", op.to_string().as_bytes()]);
    if imp == "ref" {
        let k = script.stream().iter().map(|c| BigUint::from_bytes_be(c)).find(in_range).ok_or("ref master: no usable candidate")?;
        w.put(gs(op, "k")?, rsm9::be32(&k).to_vec());
        let pubw = rsm9::with(|s| if kind == "sign" { g2_wire(&s.g2_mul(&k, &s.g2)) } else { s.g1_bytes(&s.g1_mul(&k, &s.g1)) });
        w.put(gs(op, "pub")?, pubw);
        return Ok(json!({"class":"Ok"}));
    }
    let site = if kind == "sign" { "sm9.sign_master_key_generate" } else { "sm9.enc_master_key_generate" };
    w.bump(&format!("call.{site}"));
    let (out, log) = run_lib(&script, || {
        if kind == "sign" {
            let m = Sm9SignMasterKey::master_key_generate();
            Some((glue::limbs_to_big(&m.ks), g2_wire(&glue::sm9_twist_to_ref(&m.ppubs))))
        } else {
            let m = Sm9EncMasterKey::master_key_generate();
            Some((glue::limbs_to_big(&m.ke), m.ppube.to_bytes_be()))
        }
    });
    let (class, res) = classify(out);
    hang_check(w, site, &class, &log, case);
    if let Some((k, pubw)) = res {
        c14_used(w, site, &log, Some(&k), case);
        if in_range(&k) {
            let want = rsm9::with(|s| if kind == "sign" { g2_wire(&s.g2_mul(&k, &s.g2)) } else { s.g1_bytes(&s.g1_mul(&k, &s.g1)) });
            let key = json!({"entry":site,"class":"any","outcome":"Ok"});
            w.check(prop_of(kind), "master-public-matches", want == pubw, case, key, || format!("master public key is not [k]P for k={}", hex::encode(rsm9::be32(&k))));
        }
        w.put(gs(op, "k")?, rsm9::be32(&k).to_vec());
        w.put(gs(op, "pub")?, pubw);
    }
    Ok(json!({"class": class.as_str(), "draws": log.offered.len()}))
}

/// Master public key for a chosen master secret (the way the repository's own tests build one).
fn master_pub(w: &mut World, op: &Value) -> R<Value> {
    let kind = gs(op, "kind")?;
    let kb = w.slot_of(op, "k")?;
    if kb.len() != 32 {
        return Err("master_pub: k must be 32 bytes".into());
    }
    let k = BigUint::from_bytes_be(&kb);
    let want = rsm9::with(|s| if kind == "sign" { s.g2_mul(&k, &s.g2).map(|q| g2_wire(&Some(q))) } else { s.g1_mul(&k, &s.g1).map(|p| s.g1_bytes(&Some(p))) });
    if gs(op, "impl")? == "ref" {
        w.put(gs(op, "pub")?, want.ok_or("master_pub: k = 0 mod N")?);
        return Ok(json!({"class":"Ok"}));
    }
    let limbs = glue::be_to_limbs(&kb);
    let out = run_lib_norng(|| {
        if kind == "sign" {
            Some(g2_wire(&glue::sm9_twist_to_ref(&gm_sm9::points::TwistPoint::g_mul(&limbs))))
        } else {
            Some(gm_sm9::points::Point::g_mul(&limbs).to_bytes_be())
        }
    });
    let (class, res) = classify(out);
    if let Some(pubw) = res {
        if in_range(&k) {
            let case = fnv(&[b"sm9masterpub", &kb, kind.as_bytes()]);
            let key = json!({"entry":"sm9.g_mul","class":"k in [1,N-1]","outcome":"Ok"});
            w.check(prop_of(kind), "master-public-matches", Some(&pubw) == want.as_ref(), case, key, || format!("[k]P differs from the reference for k={}", hex::encode(&kb)));
        }
        w.put(gs(op, "pub")?, pubw);
    }
    Ok(json!({"class": class.as_str()}))
}

fn extract(w: &mut World, op: &Value) -> R<Value> {
    let kind = gs(op, "kind")?.to_string();
    let kb = w.slot_of(op, "k")?;
    let pubw = w.slot_of(op, "pub")?;
    let id = w.slot_of(op, "id")?;
    let out_slot = gs(op, "out")?.to_string();
    if kb.len() != 32 {
        return Err("extract: k must be 32 bytes".into());
    }
    let k = BigUint::from_bytes_be(&kb);
    let want: Option<Vec<u8>> = rsm9::with(|s| match kind.as_str() {
        "sign" => s.extract_sign_key(&k, &id).map(|p| s.g1_bytes(&p)),
        "enc" => s.extract_enc_key(&k, &id, 3).map(|q| g2_wire(&q)),
        _ => s.extract_enc_key(&k, &id, 2).map(|q| g2_wire(&q)),
    });
    if gs(op, "impl")? == "ref" {
        match want {
            Some(v) => {
                w.put(&out_slot, v);
                return Ok(json!({"class":"Ok"}));
            }
            None => return Ok(json!({"class":"Err"})),
        }
    }
    let limbs = glue::be_to_limbs(&kb);
    w.bump(&format!("call.sm9.extract_{kind}"));
    let out = run_lib_norng(|| match kind.as_str() {
        "sign" => {
            let m = Sm9SignMasterKey { ks: limbs, ppubs: lib_twist(&pubw)? };
            m.extract_key(&id).map(|k| k.ds.to_bytes_be())
        }
        "enc" => {
            let m = Sm9EncMasterKey { ke: limbs, ppube: lib_point(&pubw)? };
            m.extract_key(&id).map(|k| g2_wire(&glue::sm9_twist_to_ref(&k.de)))
        }
        _ => {
            let m = Sm9EncMasterKey { ke: limbs, ppube: lib_point(&pubw)? };
            m.extract_exch_key(&id).map(|k| g2_wire(&glue::sm9_twist_to_ref(&k.de)))
        }
    });
    let (class, res) = classify(out);
    let case = fnv(&[b"sm9extract", &kb, &id, kind.as_bytes()]);
    if in_range(&k) {
        let key = json!({"entry":format!("sm9.extract_{kind}"),"class":"k in [1,N-1]","outcome":class.as_str()});
        w.check(prop_of(&kind), "extract-matches", res == want && class != Class::Panic, case, key, || {
            format!("extracted key {:?} differs from GM/T 0044 value {:?} (k={}, id={})", res.as_ref().map(hex::encode), want.as_ref().map(hex::encode), hex::encode(&kb), hex::encode(&id))
        });
    }
    if let Some(v) = res {
        w.put(&out_slot, v);
    }
    Ok(json!({"class": class.as_str()}))
}

// ---------------------------------------------------------------------------------------------
// signatures

fn sign(w: &mut World, op: &Value) -> R<Value> {
    let script = grng(op)?;
    let dsw = w.slot_of(op, "ds")?;
    let ppubs = w.slot_of(op, "ppubs")?;
    let id = w.slot_of(op, "id")?;
    let msg = w.slot_of(op, "msg")?;
    let out_slot = gs(op, "sig")?.to_string();
    let case = fnv(&[b"sm9sign", &dsw, &ppubs, &msg, op.get("rng").map(|v| v.to_string()).unwrap_or_default().as_bytes()]);
    let ds_ref = g1_unwire(&dsw).ok_or("sign: ds wire")?;
    let g = g_sign(&ppubs);
    if gs(op, "impl")? == "ref" {
        let g = g.ok_or("ref sign: invalid Ppub-s")?;
        let (h, s) = rsm9::with(|p| script.stream().iter().find_map(|r| p.sign_with_r(&g, &ds_ref, &msg, &BigUint::from_bytes_be(r)))).ok_or("ref sign: no usable candidate")?;
        let mut sig = rsm9::be32(&h).to_vec();
        sig.extend_from_slice(&rsm9::with(|p| p.g1_bytes(&s)));
        w.put(&out_slot, sig);
        return Ok(json!({"class":"Ok"}));
    }
    w.bump("call.sm9.sign");
    let (out, log) = run_lib(&script, || {
        let key = Sm9SignKey { ppubs: lib_twist(&ppubs)?, ds: lib_point(&dsw)? };
        key.sign(&msg).ok().map(|(h, s)| {
            let mut v = glue::limbs_to_be(&h).to_vec();
            v.extend_from_slice(&s.to_bytes_be());
            v
        })
    });
    let (class, sig) = classify(out);
    hang_check(w, "sm9.sign", &class, &log, case);
    let key = |c: &str| json!({"entry":"sm9.sign","class":c,"outcome":class.as_str()});
    w.check("C09", "sign-succeeds", class == Class::Ok, case, key("in-domain"), || format!("sign ended in {}", class.as_str()));
    if let (Some(sig), Some(g)) = (&sig, &g) {
        let h = BigUint::from_bytes_be(&sig[..32]);
        let s_pt = g1_unwire(&sig[32..]).flatten();
        let shape = sig.len() == 97 && in_range(&h) && rsm9::with(|p| p.g1_on_curve(&s_pt));
        w.check("C09", "O9.2-shape", shape, case, key("shape"), || format!("(h,S) = {} does not have h in [1,N-1] and S on the curve", hex::encode(sig)));
        // which offered candidate reproduces it
        let mut used = None;
        for c in &log.offered {
            let r = BigUint::from_bytes_be(c);
            if let Some((hh, ss)) = rsm9::with(|p| p.sign_with_r(g, &ds_ref, &msg, &r)) {
                let mut v = rsm9::be32(&hh).to_vec();
                v.extend_from_slice(&rsm9::with(|p| p.g1_bytes(&ss)));
                if &v == sig {
                    used = Some(r);
                    break;
                }
            }
        }
        w.check("C09", "O9.3-exact", used.is_some(), case, key("exact"), || {
            format!("(h,S) = {} equals the GM/T 0044.2 value for none of the {} offered r", hex::encode(sig), log.offered.len())
        });
        c14_used(w, "sm9.sign", &log, used.as_ref(), case);
        if !op.get("light").and_then(|v| v.as_bool()).unwrap_or(false) {
            let ok = rsm9::with(|p| p.verify(g, &g2_unwire(&ppubs).unwrap(), &id, &msg, &h, &s_pt));
            w.check("C09", "O9.1-ref-accepts", ok, case, key("ref-verify"), || format!("reference verifier rejects library signature {}", hex::encode(sig)));
        }
        if log.offered.len() > 1 {
            w.bump("probe.sm9.sign.retry");
        }
    }
    if let Some(sig) = sig {
        w.put(&out_slot, sig);
    }
    Ok(json!({"class": class.as_str(), "draws": log.offered.len()}))
}

fn ref_verdict_uncached(ppubs: &[u8], id: &[u8], msg: &[u8], sig: &[u8]) -> bool {
    let (g, q) = match (g_sign(ppubs), g2_unwire(ppubs)) {
        (Some(g), Some(q)) => (g, q),
        _ => return false,
    };
    let h = BigUint::from_bytes_be(&sig[..32]);
    let s = match rsm9::with(|p| p.g1_decode(&sig[32..])) {
        Some(s) => s,
        None => return false,
    };
    rsm9::with(|p| p.verify(&g, &q, id, msg, &h, &s))
}

fn verify(w: &mut World, op: &Value) -> R<Value> {
    let ppubs = w.slot_of(op, "ppubs")?;
    let id = w.slot_of(op, "id")?;
    let msg = w.slot_of(op, "msg")?;
    let sig = w.slot_of(op, "sig")?;
    let ref_on_reject = op.get("ref_on_reject").and_then(|v| v.as_bool()).unwrap_or(true);
    let case = fnv(&[b"sm9verify", &ppubs, &id, &msg, &sig]);
    let ref_verdict = |sig: &[u8]| -> bool {
        if sig.len() != 97 {
            return false;
        }
        let mk = memo_key(&[&ppubs, &id, &msg, sig]);
        if let Some(v) = REF_VER.with(|c| c.borrow().get(&mk).copied()) {
            return v;
        }
        let v = ref_verdict_uncached(&ppubs, &id, &msg, sig);
        REF_VER.with(|c| {
            let mut c = c.borrow_mut();
            if c.len() > 4096 {
                c.clear();
            }
            c.insert(mk, v);
        });
        v
    };
    let _unused = |sig: &[u8]| -> bool {
        let (g, q) = match (g_sign(&ppubs), g2_unwire(&ppubs)) {
            (Some(g), Some(q)) => (g, q),
            _ => return false,
        };
        let h = BigUint::from_bytes_be(&sig[..32]);
        let s = match rsm9::with(|p| p.g1_decode(&sig[32..])) {
            Some(s) => s,
            None => return false,
        };
        rsm9::with(|p| p.verify(&g, &q, &id, &msg, &h, &s))
    };
    if gs(op, "impl")? == "ref" {
        return Ok(json!({"class": if ref_verdict(&sig) {"Ok"} else {"Err"}}));
    }
    if sig.len() != 97 || sig[32] != 4 {
        // (h, S) is a structured argument: bytes of another shape cannot be handed to the API at all
        w.bump("probe.sm9.verify.undeliverable");
        return Ok(json!({"skipped":"signature wire form cannot be handed to the API"}));
    }
    w.bump("call.sm9.verify_sign");
    let h_limbs = glue::be_to_limbs(&sig[..32]);
    let s_form = gs_opt(op, "s_form").unwrap_or("affine").to_string();
    let out = run_lib_norng(|| {
        let m = Sm9SignMasterKey { ks: [0, 0, 0, 0], ppubs: lib_twist(&ppubs)? };
        let s = glue::sm9_point_form(&sig[32..], &s_form)?;
        m.verify_sign(&id, &msg, &h_limbs, &s).ok()
    });
    let (class, _) = classify(out);
    let h = BigUint::from_bytes_be(&sig[..32]);
    let nn = order();
    let input_class = if h.is_zero() {
        "h=0"
    } else if h >= &nn - 1u32 {
        "h>=N-1"
    } else {
        "h in [1,N-2]"
    };
    w.check_class(&["C09", "C20"], "sm9.verify_sign", &class, input_class, case, "");
    let key = json!({"entry":"sm9.verify_sign","class":input_class,"outcome":class.as_str()});
    if class == Class::Ok {
        let r = s_form != "infinity" && ref_verdict(&sig);
        w.check("C09", "O9.5-sound", r, case, key, || {
            format!("library accepts what the reference verifier rejects: id={} msg={} sig={}", hex::encode(&id), hex::encode(&msg), hex::encode(&sig))
        });
        w.bump("probe.sm9.verify.accepted");
    } else {
        if ref_on_reject {
            let r = s_form != "infinity" && ref_verdict(&sig);
            w.check("C09", "O9.4-complete", !r, case, key, || {
                format!("library rejects ({}) a signature the reference verifier accepts: id={} msg={} sig={}", class.as_str(), hex::encode(&id), hex::encode(&msg), hex::encode(&sig))
            });
        }
        w.bump("probe.sm9.verify.rejected");
    }
    Ok(json!({"class": class.as_str()}))
}

// ---------------------------------------------------------------------------------------------
// encryption

fn encrypt(w: &mut World, op: &Value) -> R<Value> {
    let script = grng(op)?;
    let ppube = w.slot_of(op, "ppube")?;
    let id = w.slot_of(op, "id")?;
    let msg = w.slot_of(op, "msg")?;
    let out_slot = gs(op, "ct")?.to_string();
    let case = fnv(&[b"sm9enc", &ppube, &id, &msg, op.get("rng").map(|v| v.to_string()).unwrap_or_default().as_bytes()]);
    let g = g_enc(&ppube);
    let pp = g1_unwire(&ppube).ok_or("encrypt: ppube wire")?;
    if gs(op, "impl")? == "ref" {
        let g = g.ok_or("ref encrypt: invalid Ppub-e")?;
        let ct = rsm9::with(|p| script.stream().iter().find_map(|r| p.encrypt_with_r(&g, &pp, &id, &msg, &BigUint::from_bytes_be(r)))).ok_or("ref encrypt: no usable candidate")?;
        w.put(&out_slot, ct);
        return Ok(json!({"class":"Ok"}));
    }
    if msg.is_empty() || msg.len() > 255 {
        return Ok(json!({"skipped":"message length outside 1..=255 (outside the property's domain)"}));
    }
    w.bump("call.sm9.encrypt");
    let msg_p = crate::place::Placed::new(&msg, w.next_place());
    let (out, log) = run_lib(&script, || {
        let m = Sm9EncMasterKey { ke: [0, 0, 0, 0], ppube: lib_point(&ppube)? };
        Some(m.encrypt(&id, msg_p.as_slice()))
    });
    let (class, ct) = classify(out);
    hang_check(w, "sm9.encrypt", &class, &log, case);
    let key = |c: &str| json!({"entry":"sm9.encrypt","class":c,"outcome":class.as_str()});
    w.check("C10", "encrypt-succeeds", class == Class::Ok, case, key("in-domain"), || format!("encrypt ended in {}", class.as_str()));
    if let (Some(ct), Some(g)) = (&ct, &g) {
        // the used r: C1 = [r]Q_B for exactly one offered candidate
        let mut used = None;
        if ct.len() >= 65 {
            for c in &log.offered {
                let r = BigUint::from_bytes_be(c);
                if !in_range(&r) {
                    continue;
                }
                let c1 = rsm9::with(|p| {
                    let qb = p.g1_add(&p.g1_mul(&p.h1(&id, 3), &p.g1), &pp);
                    p.g1_mul(&r, &qb)
                });
                if c1.is_some() && rsm9::with(|p| p.g1_bytes(&c1)) == ct[..65] {
                    used = Some(r);
                    break;
                }
            }
        }
        c14_used(w, "sm9.encrypt", &log, used.as_ref(), case);
        if let Some(r) = &used {
            let want = rsm9::with(|p| p.encrypt_with_r(g, &pp, &id, &msg, r));
            w.check("C10", "O10.2-exact", want.as_ref() == Some(ct), case, key("exact"), || {
                format!(
                    "ciphertext differs from GM/T 0044.4 for r={}: got {} want {}",
                    hex::encode(rsm9::be32(r)), hex::encode(ct), want.as_ref().map(hex::encode).unwrap_or("<pick another r: K1 is all zero>".into())
                )
            });
        }
        if log.offered.len() > 1 {
            w.bump("probe.sm9.encrypt.retry");
        }
    }
    if let Some(ct) = ct {
        w.put(&out_slot, ct);
    }
    Ok(json!({"class": class.as_str(), "draws": log.offered.len()}))
}

fn decrypt(w: &mut World, op: &Value) -> R<Value> {
    let dew = w.slot_of(op, "de")?;
    let ppube = w.slot_of(op, "ppube")?;
    let id = w.slot_of(op, "id")?;
    let ct = w.slot_of(op, "ct")?;
    let ref_on_reject = op.get("ref_on_reject").and_then(|v| v.as_bool()).unwrap_or(true);
    let case = fnv(&[b"sm9dec", &dew, &id, &ct]);
    let de_ref = g2_unwire(&dew).ok_or("decrypt: de wire")?;
    let ref_dec = |ct: &[u8]| -> Result<Vec<u8>, &'static str> {
        let mk = memo_key(&[&dew, &id, ct]);
        if let Some(v) = REF_DEC.with(|c| c.borrow().get(&mk).cloned()) {
            return v;
        }
        let v = rsm9::with(|p| p.decrypt(&de_ref, &id, ct));
        REF_DEC.with(|c| {
            let mut c = c.borrow_mut();
            if c.len() > 4096 {
                c.clear();
            }
            c.insert(mk, v.clone());
        });
        v
    };
    if gs(op, "impl")? == "ref" {
        let r = ref_dec(&ct);
        if let (Ok(m), Some(out)) = (&r, gs_opt(op, "out")) {
            w.put(out, m.clone());
        }
        return Ok(json!({"class": if r.is_ok() {"Ok"} else {"Err"}}));
    }
    w.bump("call.sm9.decrypt");
    let ct_p = crate::place::Placed::new(&ct, w.next_place());
    let out = run_lib_norng(|| {
        let k = Sm9EncKey { ppube: lib_point(&ppube)?, de: lib_twist(&dew)? };
        k.decrypt(&id, ct_p.as_slice()).ok()
    });
    let (class, m) = classify(out);
    let input_class = if ct.len() < 97 {
        "ct.len<97"
    } else if ct.len() == 97 {
        "ct.len=97 (empty C2)"
    } else if ct.len() > 97 + 255 {
        "ct.len>97+255"
    } else {
        "ct.len in 98..=352"
    };
    w.check_class(&["C10", "C20"], "sm9.decrypt", &class, input_class, case, "");
    let key = json!({"entry":"sm9.decrypt","class":input_class,"outcome":class.as_str()});
    if let Some(m) = &m {
        let r = ref_dec(&ct);
        let reason = r.as_ref().err().copied().unwrap_or("");
        let key2 = json!({"entry":"sm9.decrypt","class":format!("{input_class};ref={reason}"),"outcome":class.as_str()});
        w.check("C10", "O10.4-sound", r.as_ref().ok() == Some(m), case, key2, || {
            format!("library returns plaintext {} where the reference decryptor says {:?}: id={} ct={}", hex::encode(m), r.as_ref().map(hex::encode), hex::encode(&id), hex::encode(&ct))
        });
        w.bump("probe.sm9.decrypt.accepted");
        if let Some(out) = gs_opt(op, "out") {
            w.put(out, m.clone());
        }
    } else {
        if ref_on_reject && ct.len() <= 97 + 255 {
            let r = ref_dec(&ct);
            w.check("C10", "O10.3-complete", r.is_err(), case, key, || {
                format!("library rejects ({}) a ciphertext the reference decrypts: id={} ct={}", class.as_str(), hex::encode(&id), hex::encode(&ct))
            });
        }
        w.bump("probe.sm9.decrypt.rejected");
    }
    Ok(json!({"class": class.as_str()}))
}

// ---------------------------------------------------------------------------------------------
// key exchange

fn kex_1a(w: &mut World, op: &Value) -> R<Value> {
    let script = grng(op)?;
    let ppube = w.slot_of(op, "ppube")?;
    let idb = w.slot_of(op, "idb")?;
    let case = fnv(&[b"sm9kex1a", &ppube, &idb, op.to_string().as_bytes()]);
    let pp = g1_unwire(&ppube).ok_or("kex: ppube wire")?;
    if gs(op, "impl")? == "ref" {
        let r = script.stream().iter().map(|c| BigUint::from_bytes_be(c)).find(in_range).ok_or("ref kex: no usable candidate")?;
        let ra = rsm9::with(|p| p.g1_bytes(&p.kex_r_point(&pp, &idb, &r)));
        w.put(gs(op, "out_ra")?, ra);
        w.put(gs(op, "out_r")?, rsm9::be32(&r).to_vec());
        return Ok(json!({"class":"Ok"}));
    }
    w.bump("call.sm9.exch_step_1a");
    let (out, log) = run_lib(&script, || {
        let m = Sm9EncMasterKey { ke: [0, 0, 0, 0], ppube: lib_point(&ppube)? };
        let (ra, r) = gm_sm9::key::exch_step_1a(&m, &idb);
        Some((ra.to_bytes_be(), glue::limbs_to_big(&r)))
    });
    let (class, res) = classify(out);
    hang_check(w, "sm9.exch_step_1a", &class, &log, case);
    w.check_class(&["C17"], "sm9.exch_step_1a", &class, "any", case, "");
    if let Some((ra, r)) = res {
        c14_used(w, "sm9.exch_step_1a", &log, Some(&r), case);
        let want = rsm9::with(|p| p.g1_bytes(&p.kex_r_point(&pp, &idb, &r)));
        let key = json!({"entry":"sm9.exch_step_1a","class":"any","outcome":"Ok"});
        w.check("C17", "O17.2-R_A-conforms", want == ra, case, key, || format!("R_A {} is not [r_A]([H1(ID_B||02)]P1 + Ppub-e) = {}", hex::encode(&ra), hex::encode(&want)));
        w.put(gs(op, "out_ra")?, ra);
        w.put(gs(op, "out_r")?, rsm9::be32(&r).to_vec());
    }
    Ok(json!({"class": class.as_str()}))
}

fn kex_1b(w: &mut World, op: &Value) -> R<Value> {
    let script = grng(op)?;
    let ppube = w.slot_of(op, "ppube")?;
    let ida = w.slot_of(op, "ida")?;
    let idb = w.slot_of(op, "idb")?;
    let dew = w.slot_of(op, "de")?;
    let ra = w.slot_of(op, "ra")?;
    let klen = gu(op, "klen")? as usize;
    let case = fnv(&[b"sm9kex1b", &ppube, &ida, &idb, &ra, op.to_string().as_bytes()]);
    let pp = g1_unwire(&ppube).ok_or("kex: ppube wire")?;
    let de_ref = g2_unwire(&dew).ok_or("kex: de wire")?;
    let ra_ref = if gs_opt(op, "ra_form") == Some("infinity") { None } else { rsm9::with(|p| p.g1_decode(&ra)) };
    let g = g_enc(&ppube).ok_or("kex: invalid Ppub-e")?;
    let ref_side = |r: &BigUint| -> Option<(Vec<u8>, Vec<u8>)> {
        let ra_pt = ra_ref.clone()?;
        rsm9::with(|p| {
            let rb_pt = p.kex_r_point(&pp, &ida, r);
            let sk = p.kex_key(&g, false, &de_ref, r, &ida, &idb, &ra_pt, &rb_pt, klen)?;
            Some((p.g1_bytes(&rb_pt), sk))
        })
    };
    if gs(op, "impl")? == "ref" {
        let r = script.stream().iter().map(|c| BigUint::from_bytes_be(c)).find(in_range).ok_or("ref kex: no usable candidate")?;
        return match ref_side(&r) {
            Some((rb, sk)) => {
                w.put(gs(op, "out_rb")?, rb);
                w.put(gs(op, "out_sk")?, sk);
                Ok(json!({"class":"Ok"}))
            }
            None => Ok(json!({"class":"Err"})),
        };
    }
    w.bump("call.sm9.exch_step_1b");
    let (out, log) = run_lib(&script, || {
        let m = Sm9EncMasterKey { ke: [0, 0, 0, 0], ppube: lib_point(&ppube)? };
        let key = Sm9EncKey { ppube: m.ppube, de: lib_twist(&dew)? };
        let ra_pt = glue::sm9_point_form(&ra, gs_opt(op, "ra_form").unwrap_or("affine"))?;
        gm_sm9::key::exch_step_1b(&m, &ida, &idb, &key, &ra_pt, klen).ok().map(|(rb, sk)| (rb.to_bytes_be(), sk))
    });
    let (class, res) = classify(out);
    hang_check(w, "sm9.exch_step_1b", &class, &log, case);
    let conform = op.get("conform").and_then(|v| v.as_bool()).unwrap_or(true);
    let ic = if ra_ref.is_some() { "R_A on curve" } else { "R_A invalid" };
    w.check_class(&["C17"], "sm9.exch_step_1b", &class, ic, case, "");
    let key = json!({"entry":"sm9.exch_step_1b","class":ic,"outcome":class.as_str()});
    w.check("C17", "O17.3-offcurve-rejected", ra_ref.is_some() || class != Class::Ok, case, key.clone(), || format!("exch_step_1b accepted an R_A that is not a valid curve point: {}", hex::encode(&ra)));
    if ra_ref.is_some() && klen >= 1 {
        w.check("C17", "O17.1-step1b-succeeds", class == Class::Ok, case, key.clone(), || format!("exch_step_1b ended in {} on a valid R_A", class.as_str()));
    }
    if let Some((rb, sk)) = res {
        // the used r_B: R_B = [r_B]Q_A for one offered candidate
        let mut used = None;
        for c in &log.offered {
            let r = BigUint::from_bytes_be(c);
            if in_range(&r) && rsm9::with(|p| p.g1_bytes(&p.kex_r_point(&pp, &ida, &r))) == rb {
                used = Some(r);
                break;
            }
        }
        c14_used(w, "sm9.exch_step_1b", &log, used.as_ref(), case);
        if let (Some(r), true) = (&used, ra_ref.is_some() && conform) {
            if let Some((_, want_sk)) = ref_side(r) {
                w.check("C17", "O17.2-SK_B-conforms", want_sk == sk, case, key.clone(), || {
                    format!("SK_B {} differs from GM/T 0044.3 value {}", hex::encode(&sk), hex::encode(&want_sk))
                });
            }
        }
        w.check("C17", "O17.1-length", sk.len() == klen, case, key, || format!("SK_B has {} bytes, klen = {klen}", sk.len()));
        w.put(gs(op, "out_rb")?, rb);
        w.put(gs(op, "out_sk")?, sk);
    }
    Ok(json!({"class": class.as_str()}))
}

fn kex_2a(w: &mut World, op: &Value) -> R<Value> {
    let ppube = w.slot_of(op, "ppube")?;
    let ida = w.slot_of(op, "ida")?;
    let idb = w.slot_of(op, "idb")?;
    let dew = w.slot_of(op, "de")?;
    let rsec = w.slot_of(op, "r")?;
    let ra = w.slot_of(op, "ra")?;
    let rb = w.slot_of(op, "rb")?;
    let klen = gu(op, "klen")? as usize;
    if rsec.len() != 32 {
        return Err("kex_2a: r must be 32 bytes".into());
    }
    let case = fnv(&[b"sm9kex2a", &ppube, &ida, &idb, &ra, &rb, &rsec]);
    let de_ref = g2_unwire(&dew).ok_or("kex: de wire")?;
    let r = BigUint::from_bytes_be(&rsec);
    let rb_ref = if gs_opt(op, "rb_form") == Some("infinity") { None } else { rsm9::with(|p| p.g1_decode(&rb)) };
    let ra_ref = rsm9::with(|p| p.g1_decode(&ra));
    let g = g_enc(&ppube).ok_or("kex: invalid Ppub-e")?;
    let conform = op.get("conform").and_then(|v| v.as_bool()).unwrap_or(true) || gs(op, "impl")? == "ref";
    let want = match (&ra_ref, &rb_ref, conform) {
        (Some(a), Some(b), true) => rsm9::with(|p| p.kex_key(&g, true, &de_ref, &r, &ida, &idb, a, b, klen)),
        _ => None,
    };
    if gs(op, "impl")? == "ref" {
        return match want {
            Some(sk) => {
                w.put(gs(op, "out_sk")?, sk);
                Ok(json!({"class":"Ok"}))
            }
            None => Ok(json!({"class":"Err"})),
        };
    }
    w.bump("call.sm9.exch_step_2a");
    let r_limbs = glue::be_to_limbs(&rsec);
    let out = run_lib_norng(|| {
        let m = Sm9EncMasterKey { ke: [0, 0, 0, 0], ppube: lib_point(&ppube)? };
        let key = Sm9EncKey { ppube: m.ppube, de: lib_twist(&dew)? };
        let rb_pt = glue::sm9_point_form(&rb, gs_opt(op, "rb_form").unwrap_or("affine"))?;
        gm_sm9::key::exch_step_2a(&m, &ida, &idb, &key, r_limbs, &lib_point(&ra)?, &rb_pt, klen).ok()
    });
    let (class, sk) = classify(out);
    let ic = if rb_ref.is_some() { "R_B on curve" } else { "R_B invalid" };
    w.check_class(&["C17"], "sm9.exch_step_2a", &class, ic, case, "");
    let key = json!({"entry":"sm9.exch_step_2a","class":ic,"outcome":class.as_str()});
    w.check("C17", "O17.3-offcurve-rejected", rb_ref.is_some() || class != Class::Ok, case, key.clone(), || format!("exch_step_2a accepted an R_B that is not a valid curve point: {}", hex::encode(&rb)));
    if let Some(wsk) = &want {
        w.check("C17", "O17.2-SK_A-conforms", sk.as_ref() == Some(wsk), case, key.clone(), || {
            format!("SK_A {:?} differs from GM/T 0044.3 value {}", sk.as_ref().map(hex::encode), hex::encode(wsk))
        });
    }
    if let Some(sk) = sk {
        w.check("C17", "O17.1-length", sk.len() == klen, case, key, || format!("SK_A has {} bytes, klen = {klen}", sk.len()));
        w.put(gs(op, "out_sk")?, sk);
    }
    Ok(json!({"class": class.as_str()}))
}

/// End of a session. Unmodified exchange => same key; R_A or R_B modified in transit => the keys
/// differ (or a step failed). "Modified" is decided on the wire bytes, as the property states it.
fn kex_end(w: &mut World, op: &Value) -> R<Value> {
    let ska = w.slot_opt(op, "ska")?;
    let skb = w.slot_opt(op, "skb")?;
    let ra_sent = w.slot_of(op, "ra_sent")?;
    let ra_dlv = w.slot_of(op, "ra_delivered")?;
    let rb = match (w.slot_opt(op, "rb_sent")?, w.slot_opt(op, "rb_delivered")?) {
        (Some(a), Some(b)) => Some((a, b)),
        _ => None,
    };
    let case = fnv(&[b"sm9kexend", &ra_sent, &ra_dlv, &ska.clone().unwrap_or_default(), &skb.clone().unwrap_or_default()]);
    let modified = ra_sent != ra_dlv || rb.as_ref().map(|(a, b)| a != b).unwrap_or(false);
    let key = json!({"entry":"sm9.kex","class": if modified {"modified"} else {"unmodified"},"outcome":"Ok"});
    if let (Some(a), Some(b)) = (&ska, &skb) {
        if modified {
            w.check("C17", "O17.3-tamper-keys-differ", a != b, case, key, || format!("R_A/R_B was modified in transit and both sides still derived the same key {}", hex::encode(a)));
            w.bump("probe.sm9.kex.tampered-completed");
        } else {
            w.check("C17", "O17.1-keys-agree", a == b, case, key, || format!("unmodified exchange: SK_A={} SK_B={}", hex::encode(a), hex::encode(b)));
            w.bump("probe.sm9.kex.completed");
        }
    } else {
        w.bump("probe.sm9.kex.aborted");
    }
    Ok(json!({"modified": modified}))
}

/// A long history in one process and thread: `n` distinct identities under one master key pass
/// through encryption (kind "encrypt") or through verification (kind "verify"); afterwards the
/// EARLY identities are used again and judged exactly (ciphertext equals GM/T 0044.4 for the
/// scripted r; a valid signature is accepted). Whatever table the library keeps per identity has
/// by then seen more entries than it may be willing to hold. The watchdog is re-armed per call.
fn soak(w: &mut World, op: &Value) -> R<Value> {
    let kind = gs(op, "kind")?.to_string();
    let n = gu(op, "n")? as usize;
    let seed = gu(op, "seed")?;
    let mut p = crate::prng::Prng::new(seed);
    let nn = order();
    let k = (BigUint::from_bytes_be(&p.bytes32()) % (&nn - 1u32)) + 1u32;
    let idk = |j: usize| -> Vec<u8> { format!("soak9-{seed:x}-{j}").into_bytes() };
    let case = fnv(&[b"sm9soak", kind.as_bytes(), &seed.to_le_bytes(), &(n as u64).to_le_bytes()]);
    let mut bad: Option<String> = None;
    let mut calls = 0u64;
    if kind == "encrypt" {
        let ppube = rsm9::with(|s| s.g1_mul(&k, &s.g1));
        let ppw = rsm9::with(|s| s.g1_bytes(&ppube));
        let g = g_enc(&ppw).ok_or("soak: pairing")?;
        let msg = b"long history".to_vec();
        let enc = |id: &[u8], script: &RngScript| -> (Class, Option<Vec<u8>>) {
            let (out, _) = run_lib(script, || {
                let m = Sm9EncMasterKey { ke: [0, 0, 0, 0], ppube: lib_point(&ppw)? };
                Some(m.encrypt(id, &msg))
            });
            classify(out)
        };
        let revisit = |p: &mut crate::prng::Prng, upto: usize, bad: &mut Option<String>, calls: &mut u64| {
            let picks: Vec<usize> = (0..6usize).chain((0..6).map(|_| p.below(upto.max(1) as u64) as usize).collect::<Vec<_>>()).collect();
            for j in picks {
                if j >= upto || bad.is_some() {
                    continue;
                }
                let r = (BigUint::from_bytes_be(&p.bytes32()) % (&nn - 1u32)) + 1u32;
                let rb = rsm9::be32(&r);
                let script = RngScript { cands: vec![rb; 4], filler: 1, real: false };
                crate::runner::touch();
                let (class, ct) = enc(&idk(j), &script);
                *calls += 1;
                let want = rsm9::with(|s| s.encrypt_with_r(&g, &ppube, &idk(j), &msg, &r));
                if want.is_some() && (class != Class::Ok || ct != want) {
                    *bad = Some(format!("after {upto} distinct recipients, encrypting again to recipient {j} ({}) ended in {} and does not give the GM/T 0044.4 ciphertext for r={}", String::from_utf8_lossy(&idk(j)), class.as_str(), hex::encode(rb)));
                }
            }
        };
        for j in 0..n {
            crate::runner::touch();
            let script = RngScript { cands: vec![], filler: seed ^ (j as u64).wrapping_mul(0x9E37_79B9_7F4A_7C15), real: false };
            let (class, _) = enc(&idk(j), &script);
            calls += 1;
            if class != Class::Ok {
                bad = Some(format!("encrypting to the {j}-th distinct recipient ended in {}", class.as_str()));
                break;
            }
            // the early recipients again at a few table sizes on the way (just past 2^k entries)
            if j >= 255 && (j + 1).is_power_of_two() {
                revisit(&mut p, j + 1, &mut bad, &mut calls);
            }
            if bad.is_some() {
                break;
            }
        }
        if bad.is_none() {
            revisit(&mut p, n, &mut bad, &mut calls);
        }
        w.bump_by("call.sm9.encrypt", calls);
        w.bump_by("history.soak-sm9-recipients", n as u64);
        let key = json!({"entry":"sm9.encrypt","class":"long-history","outcome": if bad.is_some() { "fails" } else { "Ok" }});
        w.check("C10", "O10.2-exact", bad.is_none(), case, key, || bad.clone().unwrap());
    } else {
        let ppubs = rsm9::with(|s| s.g2_mul(&k, &s.g2));
        let ppw = g2_wire(&ppubs);
        let g = g_sign(&ppw).ok_or("soak: pairing")?;
        let msg = b"long history".to_vec();
        // valid signatures for the first 6 identities
        let mut sigs: Vec<Vec<u8>> = vec![];
        for j in 0..6usize {
            let ds = rsm9::with(|s| s.extract_sign_key(&k, &idk(j))).ok_or("soak: extract")?;
            let r = (BigUint::from_bytes_be(&p.bytes32()) % (&nn - 1u32)) + 1u32;
            let (h, sp) = rsm9::with(|s| s.sign_with_r(&g, &ds, &msg, &r)).ok_or("soak: sign")?;
            let mut sig = rsm9::be32(&h).to_vec();
            sig.extend_from_slice(&rsm9::with(|s| s.g1_bytes(&sp)));
            sigs.push(sig);
        }
        let ver = |id: &[u8], sig: &[u8]| -> Class {
            let h_limbs = glue::be_to_limbs(&sig[..32]);
            let out = run_lib_norng(|| {
                let m = Sm9SignMasterKey { ks: [0, 0, 0, 0], ppubs: lib_twist(&ppw)? };
                let s = glue::sm9_point_form(&sig[32..], "affine")?;
                m.verify_sign(id, &msg, &h_limbs, &s).ok()
            });
            classify(out).0
        };
        let revisit = |upto: usize, bad: &mut Option<String>, calls: &mut u64| {
            for j in 0..6usize {
                if bad.is_some() {
                    break;
                }
                crate::runner::touch();
                let c = ver(&idk(j), &sigs[j]);
                *calls += 1;
                if c != Class::Ok {
                    *bad = Some(format!("after {upto} distinct identities, a valid signature of identity {j} is answered with {}", c.as_str()));
                }
            }
        };
        revisit(0, &mut bad, &mut calls);
        for j in 6..n {
            if bad.is_some() {
                break;
            }
            crate::runner::touch();
            // someone else's signature under a new identity: must be refused, never crash
            let c = ver(&idk(j), &sigs[j % 6]);
            calls += 1;
            if c == Class::Ok || c == Class::Panic || c == Class::Hang {
                bad = Some(format!("verifying identity {j}'s claim with another identity's signature ended in {}", c.as_str()));
            }
            if j >= 255 && (j + 1).is_power_of_two() {
                revisit(j + 1, &mut bad, &mut calls);
            }
        }
        if bad.is_none() {
            revisit(n, &mut bad, &mut calls);
        }
        w.bump_by("call.sm9.verify_sign", calls);
        w.bump_by("history.soak-sm9-identities", n as u64);
        let key = json!({"entry":"sm9.verify_sign","class":"long-history","outcome": if bad.is_some() { "fails" } else { "Ok" }});
        w.check("C09", "O9.4-complete", bad.is_none(), case, key, || bad.clone().unwrap());
    }
    Ok(json!({"calls": calls}))
}
