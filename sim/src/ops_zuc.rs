//! ZUC ops: several generator objects live in the world; every request on one of them is checked
//! against the reference keystream vector at that object's cursor.

use crate::objs::ZucObj;
use crate::refmodel::zuc as rzuc;
use crate::simrng::{run_lib_norng, Class, Outcome};
use crate::world::{fnv, gs, gu, World, R};
use serde_json::{json, Value};

pub fn exec(w: &mut World, name: &str, op: &Value) -> R<Value> {
    match name {
        "zuc.new" => new(w, op),
        "zuc.req" => req(w, op),
        _ => Err(format!("unknown op {name}")),
    }
}

fn arr16(h: &str) -> R<[u8; 16]> {
    let b = hex::decode(h).map_err(|e| e.to_string())?;
    if b.len() != 16 {
        return Err("zuc key/iv must be 16 bytes".into());
    }
    let mut a = [0u8; 16];
    a.copy_from_slice(&b);
    Ok(a)
}

fn new(w: &mut World, op: &Value) -> R<Value> {
    let key = arr16(gs(op, "key")?)?;
    let iv = arr16(gs(op, "iv")?)?;
    let obj = gs(op, "obj")?.to_string();
    w.bump("call.zuc.new");
    let out = run_lib_norng(|| gm_zuc::ZUC::new(&key, &iv));
    match out {
        Outcome::Done(z) => {
            w.objs.zuc.insert(obj, ZucObj { lib: z, key, iv, reference: vec![], cursor: 0 });
            Ok(json!({"class":"Ok"}))
        }
        _ => {
            let case = fnv(&[b"zucnew", &key, &iv]);
            w.check_class(&["C08"], "zuc.new", &Class::Panic, "16-byte key and iv", case, "");
            Ok(json!({"class":"panic"}))
        }
    }
}

fn req(w: &mut World, op: &Value) -> R<Value> {
    let name = gs(op, "obj")?.to_string();
    let n = gu(op, "n")? as usize;
    let mut o = w.objs.zuc.remove(&name).ok_or_else(|| format!("zuc object '{name}' undefined"))?;
    let need = o.cursor + n;
    if o.reference.len() < need {
        let want = need.max(o.reference.len() * 2).max(64);
        let (ks, hits) = rzuc::keystream(&o.key, &o.iv, want);
        o.reference = ks;
        if hits > 0 {
            w.bump_by("probe.zuc.s16-zero-in-reference", hits);
        }
    }
    w.bump("call.zuc.generate_keystream");
    if n == 0 {
        w.bump("probe.zuc.zero-length-request");
    }
    let out = run_lib_norng(|| o.lib.generate_keystream(n));
    let case = fnv(&[b"zucreq", &o.key, &o.iv, &(o.cursor as u64).to_le_bytes(), &(n as u64).to_le_bytes()]);
    let res = match out {
        Outcome::Done(words) => {
            let key = json!({"entry":"zuc.generate_keystream","class":"any","outcome":"Ok"});
            w.check("C08", "length", words.len() == n, case, key.clone(), || format!("request for {n} words returned {}", words.len()));
            let want = &o.reference[o.cursor..o.cursor + n];
            let same = words.len() == n && words[..] == want[..];
            let cursor = o.cursor;
            w.check("C08", "keystream", same, case, key, || {
                let pos = words.iter().zip(want.iter()).position(|(a, b)| a != b).unwrap_or(0);
                format!(
                    "words at stream offset {} differ from ZUC-128 keystream (first difference at +{}: got {:08x?} want {:08x?}) key={} iv={}",
                    cursor, pos, words.get(pos), want.get(pos), hex::encode(o.key), hex::encode(o.iv)
                )
            });
            o.cursor += n;
            json!({"class":"Ok"})
        }
        _ => {
            w.check_class(&["C08"], "zuc.generate_keystream", &Class::Panic, "any", case, "");
            json!({"class":"panic"})
        }
    };
    w.objs.zuc.insert(name, o);
    Ok(res)
}
