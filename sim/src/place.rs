//! Where the caller's buffer lives. The library takes byte slices; what it may assume about them is
//! nothing beyond their length: not an alignment, not readable bytes after the end. A world in
//! which an `{"op":"place.policy","seed":N}` op has been executed hands every message /
//! ciphertext / signature to the library from a buffer whose placement is drawn from that seed:
//! starting 0..7 bytes past an 8-byte boundary, and (every other call) ending flush against an
//! unmapped page, so that an over-read of a single byte is a SIGSEGV - which the batch reports as
//! `outcome=abort` with the in-flight schedule as the replay.

pub struct Placed {
    vec: Vec<u8>,
    off: usize,
    len: usize,
    map: Option<(*mut u8, usize)>,
    start: *const u8,
}

impl Placed {
    /// `mode`: None = the data as they are; Some(k): k & 7 = offset from an 8-byte boundary,
    /// k & 8 = end flush against a guard page.
    pub fn new(data: &[u8], mode: Option<u64>) -> Placed {
        let len = data.len();
        let k = match mode {
            None => return Placed { vec: data.to_vec(), off: 0, len, map: None, start: std::ptr::null() },
            Some(k) => k,
        };
        if k & 8 != 0 {
            // [ ... data | PROT_NONE page ]
            let page = 4096usize;
            let body = (len + page - 1) / page * page + page; // at least one page even for len = 0
            let total = body + page;
            unsafe {
                let p = libc::mmap(std::ptr::null_mut(), total, libc::PROT_READ | libc::PROT_WRITE, libc::MAP_PRIVATE | libc::MAP_ANONYMOUS, -1, 0);
                if p != libc::MAP_FAILED {
                    let base = p as *mut u8;
                    libc::mprotect(base.add(body) as *mut libc::c_void, page, libc::PROT_NONE);
                    let start = base.add(body - len);
                    std::ptr::copy_nonoverlapping(data.as_ptr(), start, len);
                    return Placed { vec: vec![], off: 0, len, map: Some((base, total)), start };
                }
            }
        }
        let want = (k & 7) as usize;
        let mut vec = vec![0u8; len + 16];
        let addr = vec.as_ptr() as usize;
        let off = ((8 - addr % 8) % 8) + want;
        vec[off..off + len].copy_from_slice(data);
        Placed { vec, off, len, map: None, start: std::ptr::null() }
    }
    pub fn as_slice(&self) -> &[u8] {
        match self.map {
            Some(_) => unsafe { std::slice::from_raw_parts(self.start, self.len) },
            None => &self.vec[self.off..self.off + self.len],
        }
    }
}

impl Drop for Placed {
    fn drop(&mut self) {
        if let Some((p, n)) = self.map {
            unsafe {
                libc::munmap(p as *mut libc::c_void, n);
            }
        }
    }
}
