//! The one PRNG every simulated choice is drawn from (splitmix64 seeding, xoshiro256**).

#[derive(Clone, Debug)]
pub struct Prng {
    s: [u64; 4],
}

pub fn splitmix64(x: &mut u64) -> u64 {
    *x = x.wrapping_add(0x9E3779B97F4A7C15);
    let mut z = *x;
    z = (z ^ (z >> 30)).wrapping_mul(0xBF58476D1CE4E5B9);
    z = (z ^ (z >> 27)).wrapping_mul(0x94D049BB133111EB);
    z ^ (z >> 31)
}

/// Mix a base seed with labels into a per-run seed (order sensitive).
pub fn mix(base: u64, labels: &[u64]) -> u64 {
    let mut x = base ^ 0x6A09E667F3BCC909;
    let mut out = splitmix64(&mut x);
    for l in labels {
        x ^= l.wrapping_mul(0xD1342543DE82EF95);
        out ^= splitmix64(&mut x).rotate_left(17);
        x = x.wrapping_add(out);
    }
    splitmix64(&mut x) ^ out
}

pub fn label(s: &str) -> u64 {
    // FNV-1a, stable across runs and platforms
    let mut h: u64 = 0xcbf29ce484222325;
    for b in s.bytes() {
        h ^= b as u64;
        h = h.wrapping_mul(0x100000001b3);
    }
    h
}

impl Prng {
    pub fn new(seed: u64) -> Prng {
        let mut x = seed;
        let s = [splitmix64(&mut x), splitmix64(&mut x), splitmix64(&mut x), splitmix64(&mut x)];
        Prng { s }
    }
    pub fn next_u64(&mut self) -> u64 {
        let r = self.s[1].wrapping_mul(5).rotate_left(7).wrapping_mul(9);
        let t = self.s[1] << 17;
        self.s[2] ^= self.s[0];
        self.s[3] ^= self.s[1];
        self.s[1] ^= self.s[2];
        self.s[0] ^= self.s[3];
        self.s[2] ^= t;
        self.s[3] = self.s[3].rotate_left(45);
        r
    }
    /// uniform in 0..n (n > 0)
    pub fn below(&mut self, n: u64) -> u64 {
        debug_assert!(n > 0);
        // rejection sampling, unbiased
        let zone = u64::MAX - (u64::MAX % n);
        loop {
            let v = self.next_u64();
            if v < zone {
                return v % n;
            }
        }
    }
    pub fn range(&mut self, lo: usize, hi_incl: usize) -> usize {
        lo + self.below((hi_incl - lo + 1) as u64) as usize
    }
    pub fn chance(&mut self, num: u64, den: u64) -> bool {
        self.below(den) < num
    }
    pub fn pick<'a, T>(&mut self, v: &'a [T]) -> &'a T {
        &v[self.below(v.len() as u64) as usize]
    }
    pub fn bytes(&mut self, n: usize) -> Vec<u8> {
        let mut v = Vec::with_capacity(n + 8);
        while v.len() < n {
            v.extend_from_slice(&self.next_u64().to_le_bytes());
        }
        v.truncate(n);
        v
    }
    pub fn bytes32(&mut self) -> [u8; 32] {
        let mut o = [0u8; 32];
        o.copy_from_slice(&self.bytes(32));
        o
    }
    pub fn fork(&mut self) -> Prng {
        Prng::new(self.next_u64())
    }
}
