//! Registry: which scheduler decides which property, at which level.

use crate::runner::{IsoFn, RunFn, Tier};

pub struct PropDef {
    pub id: &'static str,
    pub level: &'static str,
    pub runs: fn(Tier) -> usize,
    pub run: RunFn,
    /// runs that get a fresh worker process of their own (two-caller runs: first-use races)
    pub isolated: IsoFn,
    pub rule: &'static str,
    pub assumptions: &'static [&'static str],
    pub exhaustive_per_sample: bool,
}

const REF_ASSUME: &str = "the reference models under /verif/sim/src/refmodel are correct readings of the standards; they are validated before every check against the published examples (GB/T 32905, GM/T 0003.5 Annex A sign/encrypt/key-agreement, ZUC v1.6 test sets, GM/T 0044.5 Annex A sign/encrypt/key-exchange)";
const SAMPLE_ASSUME: &str = "keys, identities, messages and nonces are sampled from seeded classes, not enumerated: a clean batch is evidence, not proof";

/// Vacuity guards: counters that must reach a minimum in every run of a check. A check whose
/// scheduler silently stopped producing what it is supposed to judge (no accepted corpus item, no
/// crafted fault fired, the rare branch not reached, ...) ends in a harness error, not in a pass.
pub fn guards(id: &str) -> Vec<(&'static str, u64)> {
    match id {
        "C03" => vec![("oracle.C03.O3.5-exact", 1000), ("oracle.C03.O3.4-complete", 1000), ("oracle.C03.annex-example", 1), ("probe.rare-digest.e-plus-x1-wraps", 1), ("probe.rare-digest.s-below-2^224", 1), ("oracle.C03.O3.4-openssl-signature", 24), ("probe.corpus.openssl-signature-accepted", 12), ("probe.sm2.verify.accepted", 1000)],
        "C04" => vec![("probe.sm2.verify.accepted", 1000), ("probe.sm2.verify.rejected", 10000), ("fault.flip", 20000), ("fault.truncate", 2000), ("fault.xorpair", 100), ("fault.crafted-k-zero", 10), ("fault.crafted-order2-key", 10), ("fault.component-plus-n-delivered", 2)],
        "C05" => vec![("oracle.C05.O5.2-exact", 500), ("oracle.C05.annex-example", 1), ("oracle.C05.O5.4-openssl-ciphertext", 48), ("oracle.C05.O5.4-independent-ciphertext-decrypts", 1500), ("oracle.C05.kdf-exact", 200), ("probe.sm2.encrypt.retry", 1), ("probe.sm2.zero-kdf-nonce-found", 1), ("probe.sm2.decrypt.accepted", 2000)],
        "C06" => vec![("probe.sm2.decrypt.accepted", 1000), ("probe.sm2.decrypt.rejected", 10000), ("fault.flip", 20000), ("fault.truncate", 2000), ("fault.crafted-invalid-curve", 10), ("fault.crafted-zero-point", 4), ("fault.crafted-non-residue-consistent", 4), ("fault.crafted-coordinate-ge-p", 4), ("fault.xorpair", 100)],
        "C08" => vec![("history.exhaustive", 131072), ("history.seeded", 1000), ("probe.zuc.zero-length-request", 10000), ("oracle.C08.keystream", 1000000)],
        "C09" => vec![("oracle.C09.O9.3-exact", 100), ("oracle.C09.annex-example", 1), ("probe.sm9.verify.accepted", 500), ("probe.sm9.verify.rejected", 2000), ("fault.flip", 3000)],
        "C10" => vec![("oracle.C10.O10.2-exact", 200), ("oracle.C10.annex-example", 1), ("probe.sm9.k1-zero-r-found", 1), ("probe.sm9.decrypt.accepted", 500), ("probe.sm9.decrypt.rejected", 4000), ("fault.crafted-offcurve-C1", 8), ("fault.crafted-zero-point", 4), ("fault.xorpair", 50)],
        "C14" => vec![("oracle.C14.used-was-offered", 10000), ("rngfault.offer-0", 11), ("rngfault.offer-order", 11), ("rngfault.offer-2^256-1", 11), ("rngfault.offer-eight-in-a-row", 11), ("oracle.C14.M3-bit-frequency", 11), ("oracle.C14.M3-restart-fresh", 1), ("oracle.C14.M3-threads-fresh", 1), ("probe.c14.m3-scalars-sm2", 5000), ("probe.c14.m3-scalars-sm9", 2000), ("probe.c14.m3-restart-scalars", 60), ("probe.c14.simenv-children", 2), ("probe.c14.m3-bulk-scalars-sm9", 3400000), ("probe.c14.m3-bulk-scalars-sm2", 60000), ("oracle.C14.M3-not-a-function-of-previous", 2), ("oracle.C14.M3-simenv-fresh", 1), ("history.same-inputs-again", 100)],
        "C15" => vec![("probe.sm2.kex.completed", 300), ("oracle.C15.O15.2-K_A-conforms", 200), ("oracle.C15.O15.3-tamper-detected", 300), ("history.second-run-on-same-objects", 20), ("history.tamper-subset-15", 6)],
        "C17" => vec![("oracle.C17.annex-example", 1), ("probe.sm9.kex.completed", 40), ("probe.sm9.kex.zero-key-rB-found", 1), ("oracle.C17.O17.3-offcurve-rejected", 500), ("oracle.C17.O17.2-SK_A-conforms", 20), ("history.encrypt-before-exchange", 5)],
        "C19" => vec![("oracle.C19.O19.2-openssl-document", 30), ("oracle.C19.O19.4-openssl-ciphertext", 12), ("oracle.C19.O19.4-der-exact", 100), ("probe.asn1.rare-k.x-lead-3", 1), ("probe.asn1.rare-k.y-lead-1-then-high-bit", 1), ("probe.doc.pk.accepted", 500), ("probe.doc.pk.rejected", 2000), ("probe.doc.sk.accepted", 500), ("history.semantic-documents", 3)],
        "C20" => vec![("oracle.C20.outcome-class", 30000), ("probe.c20.boundary-key-accepted", 4), ("probe.c20.boundary-key-rejected", 4), ("history.entry.sm9.decrypt", 500), ("history.entry.sm4.ctr_decrypt(data)", 500), ("history.entry.sm9.mod_n_from_hash", 500)],
        _ => vec![],
    }
}

fn never_isolated(_t: Tier, _i: usize) -> bool {
    false
}

pub fn lookup(id: &str) -> Option<PropDef> {
    all().into_iter().find(|d| d.id == id)
}

pub fn all() -> Vec<PropDef> {
    vec![
        PropDef {
            id: "C03",
            level: "exploration",
            runs: crate::gen_sm2sig::runs_c03,
            run: crate::gen_sm2sig::run_c03,
            isolated: crate::gen_sm2sig::isolated_c03,
            rule: "seeded runs of 1-4 interleaved SM2 signature sessions (key class incl. limb-boundary keys x ID class incl. empty, 8191-byte and non-ASCII IDs x message class x signer in {library, reference} x key delivery; a quarter of the sessions sign again with the same key); nonce through the RNG seam; Annex A example and 24 OpenSSL signatures in run 0; a case is one (op, all input bytes, RNG script) on which at least one C03 oracle was evaluated; distinct = distinct hashes of those inputs; plus two-caller operations (`par`: two library calls on two simulated caller threads, switched only at RNG draws and std::sync primitives in a seeded order), dedicated (20 runs) and inside the session interleavings; half of the dedicated two-caller runs execute in a worker process of their own (first-use races); damaged-first histories (a damaged signature is the verifier's first contact with the key)",
            assumptions: &[REF_ASSUME, SAMPLE_ASSUME],
            exhaustive_per_sample: false,
        },
        PropDef {
            id: "C04",
            level: "fault_enumeration",
            runs: crate::gen_sm2sig::runs_c04,
            run: crate::gen_sm2sig::run_c04,
            isolated: never_isolated,
            rule: "per seeded sample (pk, id, msg, sig) every fault of the menu is applied on a fork of the world and delivered to the library's verify: all 512 bit flips of r||s, every length 0..=130, component substitutions (0,1,n-1,n,n+1,2^256-1,n-r,n-s,+n,swap), two-byte cancelling faults, message/ID/public-key faults, misdelivery, random pairs, and signatures/keys crafted by an adversary (k = 0 and equal-points pairs by the key owner; an order-2 invalid-curve key with a forged signature); every faulted delivery is preceded and followed by the genuine one in the same world; a case is one delivered (pk, id, msg, sig) tuple on which a C04 oracle was evaluated; the two base sessions' calls are now and then made by two simulated caller threads (`par`); the same (r,s) in other framings (DER SEQUENCE of INTEGERs, hex, base64, padded / length-prefixed parts)",
            assumptions: &[REF_ASSUME, "the reference verifier, not 'was it modified', decides validity of a delivered tuple", SAMPLE_ASSUME],
            exhaustive_per_sample: true,
        },
        PropDef {
            id: "C05",
            level: "exploration",
            runs: crate::gen_sm2enc::runs_c05,
            run: crate::gen_sm2enc::run_c05,
            isolated: crate::gen_sm2enc::isolated_c05,
            rule: "seeded runs of 1-3 interleaved SM2 encryption sessions over 2 orders x 2 C1 forms x encryptor in {library, reference}; run i covers message length (i mod 300)+1 so every length 1..=300 occurs, plus lengths up to 5000 (quick) / 65536 (thorough); nonce through the RNG seam (scripted rare nonce whose KDF output is zero; Annex A example); 12 OpenSSL ciphertexts in 4 framings; the KDF at klen on both sides of every counter-byte boundary up to 65537 and an 8200-byte message; 30 runs x 50 reference-made ciphertexts delivered to the library; a quarter of the sessions reuse the key pair in another configuration; a case is one (op, input bytes, RNG script) on which a C05 oracle was evaluated; plus two-caller operations (`par`: two library calls on two simulated caller threads, switched only at RNG draws and std::sync primitives in a seeded order), dedicated (20 runs) and inside the session interleavings; half of the dedicated two-caller runs in a fresh process, decrypt||decrypt with compressed C1; damaged-first histories",
            assumptions: &[REF_ASSUME, SAMPLE_ASSUME],
            exhaustive_per_sample: false,
        },
        PropDef {
            id: "C06",
            level: "fault_enumeration",
            runs: crate::gen_sm2enc::runs_c06,
            run: crate::gen_sm2enc::run_c06,
            isolated: never_isolated,
            rule: "per seeded sample ciphertext (4 configurations cycled) every fault of the menu on a fork of the world, then the library's decrypt: every single-bit flip, every truncation length, extensions, misdelivered ciphertext/key, wrong framing, two-byte cancelling faults in C3/C2, C1 := 2*C1 / -C1 / every prefix byte / off-curve / zero / p / compressed non-residue, crafted victim-consistent ciphertexts (invalid-curve point, zero point, coordinate >= p, non-residue x with the unchecked root); every faulted delivery is preceded and followed by the genuine one in the same world; a case is one delivered (d, ciphertext, config) on which a C06 oracle was evaluated; the two base sessions' calls are now and then made by two simulated caller threads (`par`); the same ciphertext in other framings (GM/T 0009 DER, hex, base64, DER wrappings) delivered to the raw API",
            assumptions: &[REF_ASSUME, "the strict reference decryptor, not 'was it modified', decides what may be accepted", "the crafting adversary knows d (a real attacker learns it piecewise through exactly these queries)", SAMPLE_ASSUME],
            exhaustive_per_sample: true,
        },
        PropDef {
            id: "C08",
            level: "exploration",
            runs: crate::gen_zuc::runs_c08,
            run: crate::gen_zuc::run_c08,
            isolated: crate::gen_zuc::isolated_c08,
            rule: "request histories on ZUC generator objects: exhaustively every composition of totals 1..=12 (each also with a zero-length request at every position) for the 3 official and 1 seeded (key, iv); plus seeded runs of 1-4 interleaved generators with a per-run request-size law; a case is one request (key, iv, stream offset, size) checked against the reference keystream vector; 12 fresh-process runs in which the FIRST requests of two generators (1..4096 words) are made by two simulated caller threads; two generators driven by two callers now and then inside the seeded runs",
            assumptions: &[REF_ASSUME, "(key, iv) pairs are sampled; the s16==0 branch (probability 2^-31 per step) is reported by probe, not claimed covered"],
            exhaustive_per_sample: true,
        },
        PropDef {
            id: "C09",
            level: "fault_enumeration",
            runs: crate::gen_sm9::runs_c09,
            run: crate::gen_sm9::run_c09,
            isolated: crate::gen_sm9::isolated_c09,
            rule: "SM9 signature sessions with KGC, signer and verifier played by the library or the reference (random r through the RNG seam, exact comparison with GM/T 0044.2, Annex A example), then per seeded sample the fault menu on (h,S) in transit: every bit of h and S, h in {0,1,N-2,N-1,N,N+1,2^256-1,h+N}, S := 2S/-S/P1/zero, changed message/identity/master public key, misdelivery, random pairs; a case is one op (inputs as delivered) on which a C09 oracle was evaluated; plus two-caller operations (`par`: two library calls on two simulated caller threads, switched only at RNG draws and std::sync primitives in a seeded order) for sign||sign and verify||verify; input relations: a second identity colliding with the first under one of 16 common 32-bit string hashes (corpus/id_collisions.json), master secret = H1(ID), 2*H1(ID), -H1(ID); one long history (1 100 / 70 000 distinct identities verified under one master key, valid signatures of the first six revisited at 2^k entries and at the end); damaged-first histories",
            assumptions: &[REF_ASSUME, "tamper oracle: library Ok => the strict reference verifier accepts the delivered tuple", SAMPLE_ASSUME],
            exhaustive_per_sample: true,
        },
        PropDef {
            id: "C10",
            level: "fault_enumeration",
            runs: crate::gen_sm9::runs_c10,
            run: crate::gen_sm9::run_c10,
            isolated: crate::gen_sm9::isolated_c10,
            rule: "SM9 encryption sessions (every message length 1..=255 per batch; encryptor library or reference; random r through the RNG seam, exact comparison with GM/T 0044.4 incl. Annex A and a scripted r whose K1 is zero), then per seeded sample the fault menu on the ciphertext: every bit, every truncation, extensions, other identity, C1 := other points / every prefix byte, crafted victim-consistent off-curve C1; a case is one op (inputs as delivered) on which a C10 oracle was evaluated; plus two-caller operations (`par`: two library calls on two simulated caller threads, switched only at RNG draws and std::sync primitives in a seeded order) for encrypt||encrypt and decrypt||decrypt; colliding identity pairs and identity-related master secrets as in C09; crafted conforming ciphertexts whose C1 has an edge coordinate (x in 0..5, p-6..p-1) must open; one long history (1 100 / 70 000 distinct recipients, early ones revisited with exact ciphertext comparison); damaged-first histories; the same ciphertext in other framings (GM/T 0044 DER, hex, base64)",
            assumptions: &[REF_ASSUME, "tamper oracle: a plaintext may be returned only where the strict reference decryptor returns the same one", "the crafting adversary knows de and evaluates the victim's pairing through the verification wrapper", SAMPLE_ASSUME],
            exhaustive_per_sample: true,
        },
        PropDef {
            id: "C17",
            level: "fault_enumeration",
            runs: crate::gen_sm9::runs_c17,
            run: crate::gen_sm9::run_c17,
            isolated: crate::gen_sm9::isolated_c17,
            rule: "SM9 key exchange between initiator and responder played by the library or the reference (ephemeral scalars through the RNG seam, exact comparison of R_A and SK with GM/T 0044.3, Annex A example), then per seeded sample faults on R_A or R_B in transit (every 8th bit in quick / every bit in thorough, other valid point, zero, off-curve, p); a case is one protocol step or session end on which a C17 oracle was evaluated; identity pairs colliding under common 32-bit string hashes and identity-related master secrets; 10 runs of two honest exchanges in lock step on two simulated caller threads",
            assumptions: &[REF_ASSUME, "'modified in transit' is decided on wire bytes, as the property states it", SAMPLE_ASSUME],
            exhaustive_per_sample: true,
        },
        PropDef {
            id: "C14",
            level: "fault_enumeration",
            runs: crate::gen_c14::runs_c14,
            run: crate::gen_c14::run_c14,
            isolated: crate::gen_c14::isolated_c14,
            rule: "all 11 randomised call sites of gm-sm2 and gm-sm9 (SM2 keygen/sign/encrypt/exchange_1/exchange_2; SM9 sign- and enc-master keygen, sign, encrypt, exch_step_1a/1b) behind the RNG seam: (enumeration) each out-of-range candidate of the menu {0, order, order+1, order+2^64, 2^256-1, p-2, (order+p)/2} offered first at each site, double faults, in-range edge candidates, eight bad candidates in a row (draw budget); (M1) seeded runs of 3-8 calls with uniform scripts in one world; the scalar actually used is recovered from each call's output by the reference and must have been offered in that call, lie in [1, order-1] and be new; (M3, labelled non-replayable) the real generator observed through the seam: per-bit frequency against the exact uniform expectation at 8 sigma, duplicates, three fresh processes. A case is one randomised call (inputs, script) on which a C14 oracle was evaluated; bulk duplicate detection over 400 000 (SM9) / 25 000 (SM2) scalars in one process; two fresh processes under one simulated environment (frozen clock, pid, address layout) must share no scalar; two randomised calls by two simulated caller threads; 24 runs in which two simulated caller threads draw from the REAL generator at the same or different sites (half in a fresh process): what they obtain must differ",
            assumptions: &[REF_ASSUME, "M3 consumes operating-system randomness: its inputs cannot be replayed bit-for-bit; a replay re-runs the statistic (false-alarm probability < 1e-12 per run at 8 sigma)", "entropy is judged by per-bit frequency and repetition only; no claim of cryptographic unpredictability"],
            exhaustive_per_sample: true,
        },
        PropDef {
            id: "C15",
            level: "fault_enumeration",
            runs: crate::gen_sm2kex::runs_c15,
            run: crate::gen_sm2kex::run_c15,
            isolated: crate::gen_sm2kex::isolated_c15,
            rule: "four-message SM2 key agreement between parties played by the library or the reference ({lib,lib},{lib,ref},{ref,lib}); honest runs over key/ID/klen classes with ephemeral scalars scripted through the RNG seam (exact comparison of R, S_B, S_A, K with GB/T 32918.3; Annex A example), then for each sample all 16 subsets of {R_A,R_B,S_B,S_A} x {bit flip, substitution, off-curve point} plus faults on the responder's stored R_A; a case is one protocol step (inputs as delivered) on which a C15 oracle was evaluated; 24 runs of two honest agreements in lock step, the two calls of every step made by two simulated caller threads (so one party's steps run on different threads)",
            assumptions: &[REF_ASSUME, "a tampered run is judged by the reference party in the same position on the same delivered bytes, never by 'was it modified'", SAMPLE_ASSUME],
            exhaustive_per_sample: true,
        },
        PropDef {
            id: "C19",
            level: "fault_enumeration",
            runs: crate::gen_c19::runs_c19,
            run: crate::gen_c19::run_c19,
            isolated: never_isolated,
            rule: "key documents (SEC1 compressed/uncompressed, hex, SPKI DER/PEM; private bytes, hex, PKCS#8 DER/PEM, SEC1 DER) written by the library or the reference and read by the library, over key classes incl. coordinates with leading zero bytes; the committed OpenSSL corpus (documents, GM/T 0009 ciphertexts, signatures); GM/T 0009 ASN.1 ciphertext sessions whose ephemeral scalar comes through the RNG seam from a committed rare-event table (C1.x / C1.y with 1-3 leading or trailing zero bytes, top-bit patterns); then per stored document every bit flip (binary) or character substitution (text), 00/FF at every position, every truncation, extensions and semantic substitutions (coordinates = p, 2^256-1, 0, prefixes, boundary d). A case is one op (inputs as stored/delivered) on which a C19 oracle was evaluated; encrypt_asn1 at the DER length-form boundary sizes (127/128, 255/256, 65535/65536 for the OCTET STRING and the SEQUENCE); the pristine document is read again after a damaged one",
            assumptions: &[REF_ASSUME, "documents produced by OpenSSL 3.5.6 at development time (corpus/) are conforming", "round-trip clauses are deterministic functions that the simulation merely samples; its specific contribution is the seam-chosen ephemeral point and the stored-byte faults", SAMPLE_ASSUME],
            exhaustive_per_sample: true,
        },
        PropDef {
            id: "C20",
            level: "fault_enumeration",
            runs: crate::gen_c20::runs_c20,
            run: crate::gen_c20::run_c20,
            isolated: crate::gen_c20::isolated_c20,
            rule: "every receive-side entry point (SM2 verify; decrypt in 4 configurations; decrypt_asn1; public-key decoders for SEC1 bytes, hex, SPKI DER/PEM incl. FromStr; private-key decoders for bytes, hex, PKCS#8 DER/PEM, SEC1; Sm4Cipher::new, block encrypt/decrypt, CBC/CFB/OFB/CTR decrypt over data, IV and key lengths; SM9 decrypt and verify_sign; mod_n_from_hash; SM2 kdf and compute_za) is fed every length 0..=200 of zero / FF / seeded content and every truncation, extensions to +66 and every single-byte corruption (^01, ^80, :=00, :=FF) of a valid encoding; boundary private keys (0, 1, 2, n-3..n+1, 2^256-2, 2^256-1) that a constructor accepts must let sign and encrypt finish within the RNG draw budget. A case is one call (entry point, input bytes); the oracle is its outcome class in {Ok, Err}; one long history in a single process: 70 000 distinct inputs through the cheap helpers and 5 000 (thorough 70 000) distinct keys through sign/verify/encrypt/decrypt; 120 two-caller runs at receive-side entry points (public-key decoders in all encodings, SM2 decrypt incl. compressed C1, SM2 and SM9 verify; one side warm, one input now and then damaged); a well-formed input after every eighth malformed one",
            assumptions: &["panics are caught with catch_unwind; RNG-driven loops by the 64-draw budget; other hangs by a 20 s wall-clock watchdog; aborts (stack overflow, allocation failure) by the ./check wrapper's serial re-run with an in-flight journal", "inputs are enumerated per entry point over the stated menus, not over all byte strings"],
            exhaustive_per_sample: true,
        },
    ]
}
