//! Minimal strict DER writer/reader (definite, minimal lengths) for the GM/T 0009 SM2 ciphertext
//! SEQUENCE and for looking inside SPKI / PKCS#8 / SEC1 documents. Written from X.690.
#![allow(dead_code)]

use super::sm2::{self as rsm2, Order};
use num_bigint::BigUint;

pub fn len_bytes(n: usize) -> Vec<u8> {
    if n < 0x80 {
        vec![n as u8]
    } else {
        let mut b = n.to_be_bytes().to_vec();
        while b[0] == 0 {
            b.remove(0);
        }
        let mut v = vec![0x80 | b.len() as u8];
        v.extend_from_slice(&b);
        v
    }
}

pub fn tlv(tag: u8, content: &[u8]) -> Vec<u8> {
    let mut v = vec![tag];
    v.extend_from_slice(&len_bytes(content.len()));
    v.extend_from_slice(content);
    v
}

/// Non-negative INTEGER, minimal two's complement.
pub fn der_uint(x: &BigUint) -> Vec<u8> {
    let mut b = x.to_bytes_be();
    if b.is_empty() {
        b.push(0);
    }
    if b[0] & 0x80 != 0 {
        b.insert(0, 0);
    }
    tlv(0x02, &b)
}

/// Strict TLV reader: returns (tag, content, rest). Rejects indefinite and non-minimal lengths.
pub fn read_tlv(buf: &[u8]) -> Option<(u8, &[u8], &[u8])> {
    if buf.len() < 2 {
        return None;
    }
    let tag = buf[0];
    if tag & 0x1f == 0x1f {
        return None; // high tag numbers not needed
    }
    let l0 = buf[1];
    let (len, hdr) = if l0 < 0x80 {
        (l0 as usize, 2)
    } else {
        let nb = (l0 & 0x7f) as usize;
        if nb == 0 || nb > 4 || buf.len() < 2 + nb {
            return None;
        }
        let mut len = 0usize;
        for b in &buf[2..2 + nb] {
            len = (len << 8) | *b as usize;
        }
        if buf[2] == 0 || len < 0x80 {
            return None; // not minimal
        }
        (len, 2 + nb)
    };
    if buf.len() < hdr + len {
        return None;
    }
    Some((tag, &buf[hdr..hdr + len], &buf[hdr + len..]))
}

/// Strict non-negative INTEGER content -> value
pub fn uint_content(c: &[u8]) -> Option<BigUint> {
    if c.is_empty() {
        return None;
    }
    if c[0] & 0x80 != 0 {
        return None; // negative
    }
    if c.len() > 1 && c[0] == 0 && c[1] & 0x80 == 0 {
        return None; // non-minimal
    }
    Some(BigUint::from_bytes_be(c))
}

fn split_raw(raw: &[u8], order: Order, comp: bool) -> Option<(Vec<u8>, Vec<u8>, Vec<u8>)> {
    let c1len = if comp { 33 } else { 65 };
    if raw.len() < c1len + 32 {
        return None;
    }
    let c1 = raw[..c1len].to_vec();
    let (c2, c3) = match order {
        Order::C1C2C3 => (raw[c1len..raw.len() - 32].to_vec(), raw[raw.len() - 32..].to_vec()),
        Order::C1C3C2 => (raw[c1len + 32..].to_vec(), raw[c1len..c1len + 32].to_vec()),
    };
    Some((c1, c2, c3))
}

/// Raw ciphertext (in the given order / C1 form) -> GM/T 0009 SEQUENCE { x, y, hash, ciphertext }.
pub fn sm2_cipher_to_der(raw: &[u8], order: Order, comp: bool) -> Option<Vec<u8>> {
    let (c1, c2, c3) = split_raw(raw, order, comp)?;
    let pt = rsm2::with_curve(|c| c.decode_point(&c1).ok().flatten())?;
    let mut body = der_uint(&pt.0);
    body.extend_from_slice(&der_uint(&pt.1));
    body.extend_from_slice(&tlv(0x04, &c3));
    body.extend_from_slice(&tlv(0x04, &c2));
    Some(tlv(0x30, &body))
}

/// GM/T 0009 SEQUENCE -> raw ciphertext in the given order / C1 form. Strict: exact structure,
/// no trailing bytes, coordinates < 2^256, hash exactly 32 bytes. (Curve membership is left to
/// the decryptor.)
pub fn sm2_cipher_from_der(der: &[u8], order: Order, comp: bool) -> Option<Vec<u8>> {
    let (tag, body, rest) = read_tlv(der)?;
    if tag != 0x30 || !rest.is_empty() {
        return None;
    }
    let (t1, xc, r1) = read_tlv(body)?;
    let (t2, yc, r2) = read_tlv(r1)?;
    let (t3, c3, r3) = read_tlv(r2)?;
    let (t4, c2, r4) = read_tlv(r3)?;
    if t1 != 2 || t2 != 2 || t3 != 4 || t4 != 4 || !r4.is_empty() || c3.len() != 32 {
        return None;
    }
    let x = uint_content(xc)?;
    let y = uint_content(yc)?;
    if x.bits() > 256 || y.bits() > 256 {
        return None;
    }
    let mut raw = Vec::new();
    if comp {
        raw.push(if y.bit(0) { 3 } else { 2 });
        raw.extend_from_slice(&rsm2::be32(&x));
    } else {
        raw.push(4);
        raw.extend_from_slice(&rsm2::be32(&x));
        raw.extend_from_slice(&rsm2::be32(&y));
    }
    match order {
        Order::C1C2C3 => {
            raw.extend_from_slice(c2);
            raw.extend_from_slice(c3);
        }
        Order::C1C3C2 => {
            raw.extend_from_slice(c3);
            raw.extend_from_slice(c2);
        }
    }
    Some(raw)
}

pub const OID_EC_PUBLIC_KEY: &[u8] = &[0x2a, 0x86, 0x48, 0xce, 0x3d, 0x02, 0x01]; // 1.2.840.10045.2.1
pub const OID_SM2: &[u8] = &[0x2a, 0x81, 0x1c, 0xcf, 0x55, 0x01, 0x82, 0x2d]; // 1.2.156.10197.1.301

/// SubjectPublicKeyInfo { AlgorithmIdentifier { ecPublicKey, sm2 }, BIT STRING point } -> point bytes
pub fn spki_point(der: &[u8]) -> Option<Vec<u8>> {
    let (tag, body, rest) = read_tlv(der)?;
    if tag != 0x30 || !rest.is_empty() {
        return None;
    }
    let (ta, alg, r1) = read_tlv(body)?;
    let (tb, bits, r2) = read_tlv(r1)?;
    if ta != 0x30 || tb != 0x03 || !r2.is_empty() {
        return None;
    }
    let (t1, oid1, a1) = read_tlv(alg)?;
    let (t2, oid2, a2) = read_tlv(a1)?;
    if t1 != 6 || t2 != 6 || !a2.is_empty() || oid1 != OID_EC_PUBLIC_KEY || oid2 != OID_SM2 {
        return None;
    }
    if bits.is_empty() || bits[0] != 0 {
        return None;
    }
    Some(bits[1..].to_vec())
}

pub fn spki_build(point: &[u8]) -> Vec<u8> {
    let mut alg = tlv(6, OID_EC_PUBLIC_KEY);
    alg.extend_from_slice(&tlv(6, OID_SM2));
    let mut bits = vec![0u8];
    bits.extend_from_slice(point);
    let mut body = tlv(0x30, &alg);
    body.extend_from_slice(&tlv(0x03, &bits));
    tlv(0x30, &body)
}

/// SEC1 ECPrivateKey { version 1, OCTET STRING d, [0] params OPTIONAL, [1] BIT STRING pub OPTIONAL }
/// -> (d bytes, optional public point bytes)
pub fn sec1_private(der: &[u8]) -> Option<(Vec<u8>, Option<Vec<u8>>)> {
    let (tag, body, rest) = read_tlv(der)?;
    if tag != 0x30 || !rest.is_empty() {
        return None;
    }
    let (t1, ver, r1) = read_tlv(body)?;
    let (t2, d, mut r) = read_tlv(r1)?;
    if t1 != 2 || ver != [1] || t2 != 4 {
        return None;
    }
    let mut pubkey = None;
    while !r.is_empty() {
        let (t, c, rr) = read_tlv(r)?;
        match t {
            0xa0 => {
                // ECParameters: namedCurve OID only
                let (to, _oid, ro) = read_tlv(c)?;
                if to != 6 || !ro.is_empty() {
                    return None;
                }
            }
            0xa1 => {
                let (tb, bits, rb) = read_tlv(c)?;
                if tb != 3 || !rb.is_empty() || bits.is_empty() || bits[0] != 0 {
                    return None;
                }
                pubkey = Some(bits[1..].to_vec());
            }
            _ => return None,
        }
        r = rr;
    }
    Some((d.to_vec(), pubkey))
}

/// PKCS#8 PrivateKeyInfo { 0, AlgorithmIdentifier { ecPublicKey, sm2 }, OCTET STRING ECPrivateKey }
pub fn pkcs8_private(der: &[u8]) -> Option<(Vec<u8>, Option<Vec<u8>>)> {
    let (tag, body, rest) = read_tlv(der)?;
    if tag != 0x30 || !rest.is_empty() {
        return None;
    }
    let (t1, ver, r1) = read_tlv(body)?;
    let (t2, alg, r2) = read_tlv(r1)?;
    let (t3, inner, _r3) = read_tlv(r2)?;
    if t1 != 2 || ver != [0] || t2 != 0x30 || t3 != 4 {
        return None;
    }
    let (o1, oid1, a1) = read_tlv(alg)?;
    let (o2, oid2, a2) = read_tlv(a1)?;
    if o1 != 6 || o2 != 6 || !a2.is_empty() || oid1 != OID_EC_PUBLIC_KEY || oid2 != OID_SM2 {
        return None;
    }
    sec1_private(inner)
}

pub fn pkcs8_build(d: &[u8; 32], point: Option<&[u8]>) -> Vec<u8> {
    pkcs8_build_raw(d, point)
}

/// Well-formed SEC1 ECPrivateKey with a privateKey field of ANY length (semantic faults).
pub fn sec1_build_raw(d: &[u8], point: Option<&[u8]>, with_params: bool) -> Vec<u8> {
    let mut sec1 = tlv(2, &[1]);
    sec1.extend_from_slice(&tlv(4, d));
    if with_params {
        sec1.extend_from_slice(&tlv(0xa0, &tlv(6, OID_SM2)));
    }
    if let Some(p) = point {
        let mut bits = vec![0u8];
        bits.extend_from_slice(p);
        sec1.extend_from_slice(&tlv(0xa1, &tlv(3, &bits)));
    }
    tlv(0x30, &sec1)
}

pub fn pkcs8_build_raw(d: &[u8], point: Option<&[u8]>) -> Vec<u8> {
    let mut sec1 = tlv(2, &[1]);
    sec1.extend_from_slice(&tlv(4, d));
    if let Some(p) = point {
        let mut bits = vec![0u8];
        bits.extend_from_slice(p);
        sec1.extend_from_slice(&tlv(0xa1, &tlv(3, &bits)));
    }
    let sec1 = tlv(0x30, &sec1);
    let mut alg = tlv(6, OID_EC_PUBLIC_KEY);
    alg.extend_from_slice(&tlv(6, OID_SM2));
    let mut body = tlv(2, &[0]);
    body.extend_from_slice(&tlv(0x30, &alg));
    body.extend_from_slice(&tlv(4, &sec1));
    tlv(0x30, &body)
}

pub fn selftest() -> Result<(), String> {
    // round trip of a ciphertext whose x has a leading zero byte and y has the top bit set
    let x = BigUint::from(5u32);
    let d = der_uint(&x);
    if d != [2, 1, 5] {
        return Err("ref der: uint".into());
    }
    if der_uint(&BigUint::from(0x80u32)) != [2, 2, 0, 0x80] {
        return Err("ref der: uint high bit".into());
    }
    if read_tlv(&[0x04, 0x81, 0x05, 1, 2, 3, 4, 5]).is_some() {
        return Err("ref der: accepts non-minimal length".into());
    }
    let long = tlv(4, &[7u8; 200]);
    match read_tlv(&long) {
        Some((4, c, r)) if c.len() == 200 && r.is_empty() => {}
        _ => return Err("ref der: long form".into()),
    }
    Ok(())
}
