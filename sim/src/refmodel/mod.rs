pub mod der;
pub mod sm2;
pub mod sm3;
pub mod sm9;
pub mod zuc;

pub fn selftest() -> Result<(), String> {
    sm3::selftest()?;
    der::selftest()?;
    sm2::selftest()?;
    zuc::selftest()?;
    sm9::selftest()?;
    Ok(())
}
