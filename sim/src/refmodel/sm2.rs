//! Reference SM2 (GB/T 32918.1-4), big-integer arithmetic, generic short-Weierstrass curve.
//! No Montgomery form, no tables; shares nothing with gm-sm2.
#![allow(dead_code)]

use super::sm3::{kdf, sm3_parts};
use num_bigint::BigUint;
use num_traits::{One, Zero};

pub type Pt = Option<(BigUint, BigUint)>; // None = point at infinity

#[derive(Clone)]
pub struct Curve {
    pub p: BigUint,
    pub a: BigUint,
    pub b: BigUint,
    pub n: BigUint,
    pub gx: BigUint,
    pub gy: BigUint,
}

pub fn hx(s: &str) -> BigUint {
    BigUint::parse_bytes(s.replace(' ', "").as_bytes(), 16).unwrap()
}

pub fn be32(x: &BigUint) -> [u8; 32] {
    let b = x.to_bytes_be();
    assert!(b.len() <= 32, "value does not fit 32 bytes");
    let mut o = [0u8; 32];
    o[32 - b.len()..].copy_from_slice(&b);
    o
}

pub fn from_be(b: &[u8]) -> BigUint {
    BigUint::from_bytes_be(b)
}

pub fn sm2_curve() -> Curve {
    Curve {
        p: hx("FFFFFFFE FFFFFFFF FFFFFFFF FFFFFFFF FFFFFFFF 00000000 FFFFFFFF FFFFFFFF"),
        a: hx("FFFFFFFE FFFFFFFF FFFFFFFF FFFFFFFF FFFFFFFF 00000000 FFFFFFFF FFFFFFFC"),
        b: hx("28E9FA9E 9D9F5E34 4D5A9E4B CF6509A7 F39789F5 15AB8F92 DDBCBD41 4D940E93"),
        n: hx("FFFFFFFE FFFFFFFF FFFFFFFF FFFFFFFF 7203DF6B 21C6052B 53BBF409 39D54123"),
        gx: hx("32C4AE2C 1F198119 5F990446 6A39C994 8FE30BBF F2660BE1 715A4589 334C74C7"),
        gy: hx("BC3736A2 F4F6779C 59BDCEE3 6B692153 D0A9877C C62A4740 02DF32E5 2139F0A0"),
    }
}

thread_local! {
    static CURVE: Curve = sm2_curve();
}

pub fn with_curve<R>(f: impl FnOnce(&Curve) -> R) -> R {
    CURVE.with(|c| f(c))
}

fn sub_mod(a: &BigUint, b: &BigUint, m: &BigUint) -> BigUint {
    ((a % m) + m - (b % m)) % m
}

pub fn inv_mod(a: &BigUint, m: &BigUint) -> BigUint {
    // m prime
    a.modpow(&(m - 2u32), m)
}

impl Curve {
    pub fn g(&self) -> Pt {
        Some((self.gx.clone(), self.gy.clone()))
    }

    /// y^2 == x^3 + a x + b with coordinates < p. Infinity is NOT "on curve" for this predicate.
    pub fn on_curve(&self, pt: &Pt) -> bool {
        match pt {
            None => false,
            Some((x, y)) => {
                if x >= &self.p || y >= &self.p {
                    return false;
                }
                let l = (y * y) % &self.p;
                let r = (x * x * x + &self.a * x + &self.b) % &self.p;
                l == r
            }
        }
    }

    pub fn neg(&self, pt: &Pt) -> Pt {
        pt.as_ref().map(|(x, y)| (x.clone(), (&self.p - y) % &self.p))
    }

    /// Affine chord-and-tangent addition (textbook).
    pub fn add(&self, p1: &Pt, p2: &Pt) -> Pt {
        let (x1, y1) = match p1 {
            None => return p2.clone(),
            Some(v) => v,
        };
        let (x2, y2) = match p2 {
            None => return p1.clone(),
            Some(v) => v,
        };
        let p = &self.p;
        let lam = if x1 == x2 {
            if ((y1 + y2) % p).is_zero() {
                return None;
            }
            let num = (BigUint::from(3u32) * x1 * x1 + &self.a) % p;
            let den = inv_mod(&((y1 + y1) % p), p);
            (num * den) % p
        } else {
            let num = sub_mod(y2, y1, p);
            let den = inv_mod(&sub_mod(x2, x1, p), p);
            (num * den) % p
        };
        let x3 = sub_mod(&sub_mod(&(&lam * &lam), x1, p), x2, p);
        let y3 = sub_mod(&(&lam * sub_mod(x1, &x3, p)), y1, p);
        Some((x3, y3))
    }

    /// Slow double-and-add over the affine law; used to cross-check `mul`.
    pub fn mul_affine(&self, k: &BigUint, pt: &Pt) -> Pt {
        let mut r: Pt = None;
        for i in (0..k.bits()).rev() {
            r = self.add(&r, &r);
            if k.bit(i) {
                r = self.add(&r, pt);
            }
        }
        r
    }

    /// Scalar multiplication, textbook Jacobian coordinates with generic `a` (does not use `b`,
    /// so it also computes on y^2 = x^3 + a x + b' for points of such a curve).
    pub fn mul(&self, k: &BigUint, pt: &Pt) -> Pt {
        let (px, py) = match pt {
            None => return None,
            Some(v) => v,
        };
        let p = &self.p;
        // (X,Y,Z), Z=0 infinity
        let mut x = BigUint::one();
        let mut y = BigUint::one();
        let mut z = BigUint::zero();
        for i in (0..k.bits()).rev() {
            // double
            if !z.is_zero() {
                if y.is_zero() {
                    z = BigUint::zero();
                } else {
                    let yy = (&y * &y) % p;
                    let s = (BigUint::from(4u32) * &x * &yy) % p;
                    let zz = (&z * &z) % p;
                    let m = (BigUint::from(3u32) * &x * &x + &self.a * &zz * &zz) % p;
                    let nx = sub_mod(&(&m * &m), &(&s + &s), p);
                    let ny = sub_mod(&(&m * sub_mod(&s, &nx, p)), &(BigUint::from(8u32) * &yy * &yy), p);
                    let nz = (BigUint::from(2u32) * &y * &z) % p;
                    x = nx;
                    y = ny;
                    z = nz;
                }
            }
            if k.bit(i) {
                // mixed add of (px,py)
                if z.is_zero() {
                    x = px.clone();
                    y = py.clone();
                    z = BigUint::one();
                } else {
                    let zz = (&z * &z) % p;
                    let u2 = (px * &zz) % p;
                    let s2 = (py * &zz * &z) % p;
                    let h = sub_mod(&u2, &x, p);
                    let r = sub_mod(&s2, &y, p);
                    if h.is_zero() {
                        if r.is_zero() {
                            // doubling case
                            let yy = (&y * &y) % p;
                            let s = (BigUint::from(4u32) * &x * &yy) % p;
                            let m = (BigUint::from(3u32) * &x * &x + &self.a * &zz * &zz) % p;
                            let nx = sub_mod(&(&m * &m), &(&s + &s), p);
                            let ny = sub_mod(
                                &(&m * sub_mod(&s, &nx, p)),
                                &(BigUint::from(8u32) * &yy * &yy),
                                p,
                            );
                            let nz = (BigUint::from(2u32) * &y * &z) % p;
                            x = nx;
                            y = ny;
                            z = nz;
                        } else {
                            z = BigUint::zero();
                        }
                    } else {
                        let hh = (&h * &h) % p;
                        let hhh = (&hh * &h) % p;
                        let v = (&x * &hh) % p;
                        let nx = sub_mod(&sub_mod(&(&r * &r), &hhh, p), &(&v + &v), p);
                        let ny = sub_mod(&(&r * sub_mod(&v, &nx, p)), &(&y * &hhh), p);
                        let nz = (&z * &h) % p;
                        x = nx;
                        y = ny;
                        z = nz;
                    }
                }
            }
        }
        if z.is_zero() {
            return None;
        }
        let zi = inv_mod(&z, p);
        let zi2 = (&zi * &zi) % p;
        Some(((&x * &zi2) % p, (&y * &zi2 * &zi) % p))
    }

    pub fn mul_g(&self, k: &BigUint) -> Pt {
        self.mul(k, &self.g())
    }

    /// Square root modulo p (p = 3 mod 4), None if not a residue.
    pub fn sqrt(&self, g: &BigUint) -> Option<BigUint> {
        let e = (&self.p + 1u32) >> 2;
        let y = g.modpow(&e, &self.p);
        if (&y * &y) % &self.p == g % &self.p {
            Some(y)
        } else {
            None
        }
    }

    /// Strict SEC1 decoding: 04||x||y (65 bytes) or 02/03||x (33 bytes); coordinates < p; on curve.
    pub fn decode_point(&self, b: &[u8]) -> Result<Pt, &'static str> {
        if b.is_empty() {
            return Err("empty");
        }
        match b[0] {
            0x04 => {
                if b.len() != 65 {
                    return Err("length");
                }
                let x = from_be(&b[1..33]);
                let y = from_be(&b[33..65]);
                let pt = Some((x, y));
                if !self.on_curve(&pt) {
                    return Err("not on curve");
                }
                Ok(pt)
            }
            0x02 | 0x03 => {
                if b.len() != 33 {
                    return Err("length");
                }
                let x = from_be(&b[1..33]);
                if x >= self.p {
                    return Err("x >= p");
                }
                let g = (&x * &x * &x + &self.a * &x + &self.b) % &self.p;
                let mut y = self.sqrt(&g).ok_or("no square root")?;
                let want_odd = b[0] == 0x03;
                if y.bit(0) != want_odd {
                    y = (&self.p - &y) % &self.p;
                }
                if y.bit(0) != want_odd {
                    return Err("parity");
                }
                Ok(Some((x, y)))
            }
            _ => Err("prefix"),
        }
    }

    pub fn encode_point(&self, pt: &Pt, compressed: bool) -> Vec<u8> {
        let (x, y) = match pt.as_ref() {
            Some(v) => v,
            None => return vec![0u8], // infinity, as in SEC1
        };
        let mut v = Vec::with_capacity(65);
        if compressed {
            v.push(if y.bit(0) { 0x03 } else { 0x02 });
            v.extend_from_slice(&be32(x));
        } else {
            v.push(0x04);
            v.extend_from_slice(&be32(x));
            v.extend_from_slice(&be32(y));
        }
        v
    }
}

// ---------------------------------------------------------------------------------------------
// GB/T 32918.2 signatures

pub fn za(c: &Curve, id: &[u8], pk: &Pt) -> Option<[u8; 32]> {
    if id.len() * 8 > 0xffff {
        return None;
    }
    let (x, y) = pk.as_ref()?;
    let entl = ((id.len() * 8) as u16).to_be_bytes();
    Some(sm3_parts(&[
        &entl,
        id,
        &be32(&c.a),
        &be32(&c.b),
        &be32(&c.gx),
        &be32(&c.gy),
        &be32(x),
        &be32(y),
    ]))
}

pub fn digest_e(c: &Curve, id: &[u8], pk: &Pt, msg: &[u8]) -> Option<BigUint> {
    let z = za(c, id, pk)?;
    Some(from_be(&sm3_parts(&[&z, msg])))
}

/// Deterministic signing with a given nonce. None when the standard says "pick another k".
pub fn sign_with_k(c: &Curve, d: &BigUint, id: &[u8], msg: &[u8], k: &BigUint) -> Option<[u8; 64]> {
    if k.is_zero() || k >= &c.n {
        return None;
    }
    let pk = c.mul_g(d);
    let e = digest_e(c, id, &pk, msg)?;
    let (x1, _) = c.mul_g(k)?;
    let r = (&e + &x1) % &c.n;
    if r.is_zero() || (&r + k) == c.n {
        return None;
    }
    let inv = inv_mod(&((d + 1u32) % &c.n), &c.n);
    let s = (inv * sub_mod(k, &(&r * d), &c.n)) % &c.n;
    if s.is_zero() {
        return None;
    }
    let mut out = [0u8; 64];
    out[..32].copy_from_slice(&be32(&r));
    out[32..].copy_from_slice(&be32(&s));
    Some(out)
}

/// Strict verification: exactly 64 bytes, r,s in [1,n-1], t != 0, public key on curve, R == r.
pub fn verify(c: &Curve, pk: &Pt, id: &[u8], msg: &[u8], sig: &[u8]) -> bool {
    if sig.len() != 64 || !c.on_curve(pk) {
        return false;
    }
    let r = from_be(&sig[..32]);
    let s = from_be(&sig[32..]);
    if r.is_zero() || s.is_zero() || r >= c.n || s >= c.n {
        return false;
    }
    let e = match digest_e(c, id, pk, msg) {
        Some(e) => e,
        None => return false,
    };
    let t = (&r + &s) % &c.n;
    if t.is_zero() {
        return false;
    }
    let pt = c.add(&c.mul_g(&s), &c.mul(&t, pk));
    match pt {
        None => false,
        Some((x1, _)) => (e + x1) % &c.n == r,
    }
}

/// Nonce recovered from a signature with the private key: k = s(1+d) + r d mod n.
pub fn recover_k(c: &Curve, d: &BigUint, sig: &[u8]) -> Option<BigUint> {
    if sig.len() != 64 {
        return None;
    }
    let r = from_be(&sig[..32]);
    let s = from_be(&sig[32..]);
    Some((&s * (d + 1u32) + &r * d) % &c.n)
}

// ---------------------------------------------------------------------------------------------
// GB/T 32918.4 public-key encryption

#[derive(Clone, Copy, PartialEq, Eq, Debug)]
pub enum Order {
    C1C2C3,
    C1C3C2,
}

/// None when the standard says "pick another k" (KDF output all zero) or k out of range.
pub fn encrypt_with_k(
    c: &Curve,
    pk: &Pt,
    msg: &[u8],
    k: &BigUint,
    order: Order,
    compressed: bool,
) -> Option<Vec<u8>> {
    if k.is_zero() || k >= &c.n || msg.is_empty() || !c.on_curve(pk) {
        return None;
    }
    let c1 = c.mul_g(k);
    let (x2, y2) = c.mul(k, pk)?;
    let (x2b, y2b) = (be32(&x2), be32(&y2));
    let t = kdf(&[x2b, y2b].concat(), msg.len());
    if t.iter().all(|b| *b == 0) {
        return None;
    }
    let c2: Vec<u8> = msg.iter().zip(t.iter()).map(|(a, b)| a ^ b).collect();
    let c3 = sm3_parts(&[&x2b, msg, &y2b]);
    let mut out = c.encode_point(&c1, compressed);
    match order {
        Order::C1C2C3 => {
            out.extend_from_slice(&c2);
            out.extend_from_slice(&c3);
        }
        Order::C1C3C2 => {
            out.extend_from_slice(&c3);
            out.extend_from_slice(&c2);
        }
    }
    Some(out)
}

/// Strict decryption. `compressed` fixes the expected C1 form the way the library's API does.
pub fn decrypt(
    c: &Curve,
    d: &BigUint,
    ct: &[u8],
    order: Order,
    compressed: bool,
) -> Result<Vec<u8>, &'static str> {
    let c1len = if compressed { 33 } else { 65 };
    if ct.len() < c1len + 32 + 1 {
        return Err("too short");
    }
    let c1b = &ct[..c1len];
    if compressed && !(c1b[0] == 2 || c1b[0] == 3) {
        return Err("prefix");
    }
    if !compressed && c1b[0] != 4 {
        return Err("prefix");
    }
    let c1 = c.decode_point(c1b)?;
    let (c2, c3) = match order {
        Order::C1C2C3 => (&ct[c1len..ct.len() - 32], &ct[ct.len() - 32..]),
        Order::C1C3C2 => (&ct[c1len + 32..], &ct[c1len..c1len + 32]),
    };
    let (x2, y2) = c.mul(d, &c1).ok_or("infinity")?;
    let (x2b, y2b) = (be32(&x2), be32(&y2));
    let t = kdf(&[x2b, y2b].concat(), c2.len());
    if t.iter().all(|b| *b == 0) {
        return Err("kdf zero");
    }
    let m: Vec<u8> = c2.iter().zip(t.iter()).map(|(a, b)| a ^ b).collect();
    let u = sm3_parts(&[&x2b, &m, &y2b]);
    if u[..] != c3[..] {
        return Err("c3 mismatch");
    }
    Ok(m)
}

// ---------------------------------------------------------------------------------------------
// GB/T 32918.3 key agreement (w = 127, one-byte tags 02 / 03, cofactor 1)

pub fn xbar(x: &BigUint) -> BigUint {
    let w = 127u32;
    let two_w = BigUint::one() << w;
    &two_w + (x % &two_w)
}

pub struct KexOut {
    pub key: Vec<u8>,
    pub s_b: [u8; 32], // tag 02 value (sent by responder / checked by initiator)
    pub s_a: [u8; 32], // tag 03 value (sent by initiator / checked by responder)
}

/// Everything one side derives. `initiator`: self is A (Z_A = own). r_self is own ephemeral scalar.
/// Returns None when the peer's ephemeral point is not on the curve or the shared point is infinity.
#[allow(clippy::too_many_arguments)]
pub fn kex_derive(
    c: &Curve,
    initiator: bool,
    d_self: &BigUint,
    r_self: &BigUint,
    id_self: &[u8],
    id_peer: &[u8],
    pk_peer: &Pt,
    r_peer_pt: &Pt,
    klen: usize,
) -> Option<KexOut> {
    if !c.on_curve(r_peer_pt) || !c.on_curve(pk_peer) {
        return None;
    }
    let pk_self = c.mul_g(d_self);
    let r_self_pt = c.mul_g(r_self);
    let (xs, ys) = r_self_pt.clone()?;
    let (xp, yp) = r_peer_pt.clone()?;
    let t = (d_self + xbar(&xs) * r_self) % &c.n;
    let q = c.add(pk_peer, &c.mul(&xbar(&xp), r_peer_pt));
    let (xu, yu) = c.mul(&t, &q)?;
    let z_self = za(c, id_self, &pk_self)?;
    let z_peer = za(c, id_peer, pk_peer)?;
    let (z_a, z_b) = if initiator { (z_self, z_peer) } else { (z_peer, z_self) };
    let ((x1, y1), (x2, y2)) = if initiator { ((xs, ys), (xp, yp)) } else { ((xp, yp), (xs, ys)) };
    let key = kdf(&[&be32(&xu)[..], &be32(&yu)[..], &z_a[..], &z_b[..]].concat(), klen);
    let inner = sm3_parts(&[&be32(&xu), &z_a, &z_b, &be32(&x1), &be32(&y1), &be32(&x2), &be32(&y2)]);
    let s_b = sm3_parts(&[&[0x02u8], &be32(&yu), &inner]);
    let s_a = sm3_parts(&[&[0x03u8], &be32(&yu), &inner]);
    Some(KexOut { key, s_b, s_a })
}

// ---------------------------------------------------------------------------------------------

pub fn selftest() -> Result<(), String> {
    let c = sm2_curve();
    if !c.on_curve(&c.g()) {
        return Err("ref sm2: G not on curve".into());
    }
    if c.mul_g(&c.n).is_some() {
        return Err("ref sm2: [n]G != O".into());
    }
    // Jacobian ladder vs affine law
    for s in ["1", "2", "3", "7fffffffffffffffffffffffffffffff", "FFFFFFFEFFFFFFFFFFFFFFFFFFFFFFFF7203DF6B21C6052B53BBF40939D54122",
              "59276E27D506861A16680F3AD9C02DCCEF3CC1FA3CDBE4CE6D54B80DEAC1BC21"] {
        let k = hx(s);
        if c.mul_g(&k) != c.mul_affine(&k, &c.g()) {
            return Err(format!("ref sm2: jacobian/affine mismatch for k={s}"));
        }
    }
    // GM/T 0003.5 Annex A (recommended curve) signature example
    let d = hx("3945208F7B2144B13F36E38AC6D39F95889393692860B51A42FB81EF4DF7C5B8");
    let k = hx("59276E27D506861A16680F3AD9C02DCCEF3CC1FA3CDBE4CE6D54B80DEAC1BC21");
    let pk = c.mul_g(&d);
    let (px, py) = pk.clone().unwrap();
    if px != hx("09F9DF311E5421A150DD7D161E4BC5C672179FAD1833FC076BB08FF356F35020")
        || py != hx("CCEA490CE26775A52DC6EA718CC1AA600AED05FBF35E084A6632F6072DA9AD13")
    {
        return Err("ref sm2: annex public key mismatch".into());
    }
    let sig = sign_with_k(&c, &d, b"1234567812345678", b"message digest", &k).ok_or("ref sm2: sign none")?;
    let want = "F5A03B0648D2C4630EEAC513E1BB81A15944DA3827D5B74143AC7EACEEE720B3B1B6AA29DF212FD8763182BC0D421CA1BB9038FD1F7F42D4840B69C485BBC1AA";
    if hex::encode_upper(sig) != want {
        return Err(format!("ref sm2: annex signature mismatch {}", hex::encode_upper(sig)));
    }
    if !verify(&c, &pk, b"1234567812345678", b"message digest", &sig) {
        return Err("ref sm2: annex signature does not verify".into());
    }
    if recover_k(&c, &d, &sig) != Some(k.clone()) {
        return Err("ref sm2: recover_k".into());
    }
    // Annex A encryption example
    let ct = encrypt_with_k(&c, &pk, b"encryption standard", &k, Order::C1C3C2, false).ok_or("ref sm2: enc none")?;
    let want_ct = "0404EBFC718E8D1798620432268E77FEB6415E2EDE0E073C0F4F640ECD2E149A73E858F9D81E5430A57B36DAAB8F950A3C64E6EE6A63094D99283AFF767E124DF059983C18F809E262923C53AEC295D30383B54E39D609D160AFCB1908D0BD876621886CA989CA9C7D58087307CA93092D651EFA";
    if hex::encode_upper(&ct) != want_ct {
        return Err(format!("ref sm2: annex ciphertext mismatch {}", hex::encode_upper(&ct)));
    }
    if decrypt(&c, &d, &ct, Order::C1C3C2, false).as_deref() != Ok(&b"encryption standard"[..]) {
        return Err("ref sm2: annex decrypt".into());
    }
    // Annex A key agreement example
    let da = hx("81EB26E941BB5AF16DF116495F90695272AE2CD63D6C4AE1678418BE48230029");
    let db = hx("785129917D45A9EA5437A59356B82338EAADDA6CEB199088F14AE10DEFA229B5");
    let ra = hx("D4DE15474DB74D06491C440D305E012400990F3E390C7E87153C12DB2EA60BB3");
    let rb = hx("7E07124814B309489125EAED101113164EBF0F3458C5BD88335C1F9D596243D6");
    let pa = c.mul_g(&da);
    let pb = c.mul_g(&db);
    let ida = b"1234567812345678";
    let idb = b"1234567812345678";
    let oa = kex_derive(&c, true, &da, &ra, ida, idb, &pb, &c.mul_g(&rb), 16).ok_or("ref sm2: kex a")?;
    let ob = kex_derive(&c, false, &db, &rb, idb, ida, &pa, &c.mul_g(&ra), 16).ok_or("ref sm2: kex b")?;
    if hex::encode_upper(&oa.key) != "6C89347354DE2484C60B4AB1FDE4C6E5" || oa.key != ob.key {
        return Err(format!("ref sm2: annex kex key {}", hex::encode_upper(&oa.key)));
    }
    if hex::encode_upper(oa.s_b) != "D3A0FE15DEE185CEAE907A6B595CC32A266ED7B3367E9983A896DC32FA20F8EB" || oa.s_b != ob.s_b {
        return Err(format!("ref sm2: annex kex S_B {}", hex::encode_upper(oa.s_b)));
    }
    if hex::encode_upper(oa.s_a) != "18C7894B3816DF16CF07B05C5EC0BEF5D655D58F779CC1B400A4F3884644DB88" || oa.s_a != ob.s_a {
        return Err(format!("ref sm2: annex kex S_A {}", hex::encode_upper(oa.s_a)));
    }
    // point codec round trip, both parities
    for s in ["1", "2", "3", "4", "5"] {
        let pt = c.mul_g(&hx(s));
        for comp in [false, true] {
            if c.decode_point(&c.encode_point(&pt, comp)) != Ok(pt.clone()) {
                return Err("ref sm2: point codec".into());
            }
        }
    }
    Ok(())
}
