//! Reference SM3 (GB/T 32905-2016), written from the standard's text.
//! Streaming, word oriented; shares nothing with gm-sm3.

#[derive(Clone)]
pub struct Sm3 {
    v: [u32; 8],
    buf: [u8; 64],
    fill: usize,
    total: u64,
}

const IV: [u32; 8] = [
    0x7380166f, 0x4914b2b9, 0x172442d7, 0xda8a0600, 0xa96f30bc, 0x163138aa, 0xe38dee4d, 0xb0fb0e4e,
];

impl Sm3 {
    pub fn new() -> Self {
        Sm3 { v: IV, buf: [0; 64], fill: 0, total: 0 }
    }

    pub fn update(&mut self, mut data: &[u8]) -> &mut Self {
        self.total = self.total.wrapping_add(data.len() as u64);
        while !data.is_empty() {
            let take = (64 - self.fill).min(data.len());
            self.buf[self.fill..self.fill + take].copy_from_slice(&data[..take]);
            self.fill += take;
            data = &data[take..];
            if self.fill == 64 {
                let b = self.buf;
                self.compress(&b);
                self.fill = 0;
            }
        }
        self
    }

    pub fn finish(mut self) -> [u8; 32] {
        let bitlen = self.total.wrapping_mul(8);
        let mut pad = vec![0x80u8];
        let rem = (self.fill + 1) % 64;
        let zeros = if rem <= 56 { 56 - rem } else { 120 - rem };
        pad.extend(std::iter::repeat(0u8).take(zeros));
        pad.extend_from_slice(&bitlen.to_be_bytes());
        let t = self.total;
        self.update(&pad);
        self.total = t;
        debug_assert_eq!(self.fill, 0);
        let mut out = [0u8; 32];
        for (i, w) in self.v.iter().enumerate() {
            out[4 * i..4 * i + 4].copy_from_slice(&w.to_be_bytes());
        }
        out
    }

    fn compress(&mut self, block: &[u8; 64]) {
        let mut w = [0u32; 68];
        for j in 0..16 {
            w[j] = u32::from_be_bytes([block[4 * j], block[4 * j + 1], block[4 * j + 2], block[4 * j + 3]]);
        }
        for j in 16..68 {
            let x = w[j - 16] ^ w[j - 9] ^ w[j - 3].rotate_left(15);
            let p1 = x ^ x.rotate_left(15) ^ x.rotate_left(23);
            w[j] = p1 ^ w[j - 13].rotate_left(7) ^ w[j - 6];
        }
        let [mut a, mut b, mut c, mut d, mut e, mut f, mut g, mut h] = self.v;
        for j in 0..64 {
            let t: u32 = if j < 16 { 0x79cc4519 } else { 0x7a879d8a };
            let a12 = a.rotate_left(12);
            let ss1 = a12.wrapping_add(e).wrapping_add(t.rotate_left((j % 32) as u32)).rotate_left(7);
            let ss2 = ss1 ^ a12;
            let (ffv, ggv) = if j < 16 {
                (a ^ b ^ c, e ^ f ^ g)
            } else {
                ((a & b) | (a & c) | (b & c), (e & f) | (!e & g))
            };
            let tt1 = ffv.wrapping_add(d).wrapping_add(ss2).wrapping_add(w[j] ^ w[j + 4]);
            let tt2 = ggv.wrapping_add(h).wrapping_add(ss1).wrapping_add(w[j]);
            d = c;
            c = b.rotate_left(9);
            b = a;
            a = tt1;
            h = g;
            g = f.rotate_left(19);
            f = e;
            e = tt2 ^ tt2.rotate_left(9) ^ tt2.rotate_left(17);
        }
        let n = [a, b, c, d, e, f, g, h];
        for i in 0..8 {
            self.v[i] ^= n[i];
        }
    }
}

pub fn sm3(data: &[u8]) -> [u8; 32] {
    let mut h = Sm3::new();
    h.update(data);
    h.finish()
}

pub fn sm3_parts(parts: &[&[u8]]) -> [u8; 32] {
    let mut h = Sm3::new();
    for p in parts {
        h.update(p);
    }
    h.finish()
}

/// KDF of GB/T 32918.4 5.4.3 / GM/T 0044: first klen bytes of SM3(Z||ct=1) || SM3(Z||2) || ...
pub fn kdf(z: &[u8], klen: usize) -> Vec<u8> {
    let mut out = Vec::with_capacity(klen + 32);
    let mut ct: u32 = 1;
    while out.len() < klen {
        out.extend_from_slice(&sm3_parts(&[z, &ct.to_be_bytes()]));
        ct = ct.wrapping_add(1);
    }
    out.truncate(klen);
    out
}

pub fn selftest() -> Result<(), String> {
    let v = |m: &[u8], want: &str| -> Result<(), String> {
        let got = hex::encode(sm3(m));
        if got != want {
            return Err(format!("ref sm3 mismatch: got {got} want {want}"));
        }
        Ok(())
    };
    v(b"abc", "66c7f0f462eeedd9d1f2d46bdc10e4e24167c4875cf2f7a2297da02b8f4ba8e0")?;
    v(
        &b"abcd".repeat(16),
        "debe9ff92275b8a138604889c18e5a4d6fdb70e5387e5765293dcba39c0c5732",
    )?;
    v(b"", "1ab21d8355cfa17f8e61194831e81a8f22bec8c728fefb747ed035eb5082aa2b")?;
    Ok(())
}
