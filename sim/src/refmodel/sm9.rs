//! Reference SM9 (GM/T 0044.1-5) written from the standards' text.
//! Fp12 is the flat ring Fp[w]/(w^12+2) (12 big-integer coefficients, schoolbook product,
//! inversion by Gaussian elimination); the pairing is the textbook R-ate pairing computed with
//! an affine Miller loop on the untwisted curve over Fp12 and a plain final exponentiation
//! (p^12-1)/N. No tower, no Montgomery form, no tables: nothing is shared with gm-sm9.
#![allow(dead_code)]

use super::sm3::{kdf, sm3_parts};
use num_bigint::BigUint;
use num_traits::{One, Zero};

pub type G1 = Option<(BigUint, BigUint)>;
pub type F2 = (BigUint, BigUint); // c0 + c1*u, u^2 = -2
pub type G2 = Option<(F2, F2)>;
pub type F12 = Vec<BigUint>; // 12 coefficients of w^0..w^11

fn hx(s: &str) -> BigUint {
    BigUint::parse_bytes(s.as_bytes(), 16).unwrap()
}

pub struct Params {
    pub p: BigUint,
    pub n: BigUint,
    pub t: BigUint,
    pub g1: G1,
    pub g2: G2,
    pub final_exp: BigUint,
    w2i: F12,
    w3i: F12,
}

thread_local! {
    static PARAMS: Params = Params::new();
}

pub fn with<R>(f: impl FnOnce(&Params) -> R) -> R {
    PARAMS.with(|p| f(p))
}

pub fn be32(x: &BigUint) -> [u8; 32] {
    let b = x.to_bytes_be();
    assert!(b.len() <= 32);
    let mut o = [0u8; 32];
    o[32 - b.len()..].copy_from_slice(&b);
    o
}

impl Params {
    pub fn new() -> Params {
        let p = hx("B640000002A3A6F1D603AB4FF58EC74521F2934B1A7AEEDBE56F9B27E351457D");
        let n = hx("B640000002A3A6F1D603AB4FF58EC74449F2934B18EA8BEEE56EE19CD69ECF25");
        let t = hx("600000000058F98A");
        let g1 = Some((
            hx("93DE051D62BF718FF5ED0704487D01D6E1E4086909DC3280E8C4E4817C66DDDD"),
            hx("21FE8DDA4F21E607631065125C395BBC1C1C00CBFA6024350C464CD70A3EA616"),
        ));
        let g2 = Some((
            (
                hx("3722755292130B08D2AAB97FD34EC120EE265948D19C17ABF9B7213BAF82D65B"),
                hx("85AEF3D078640C98597B6027B441A01FF1DD2C190F5E93C454806C11D8806141"),
            ),
            (
                hx("A7CF28D519BE3DA65F3170153D278FF247EFBA98A71A08116215BBA5C999A7C7"),
                hx("17509B092E845C1266BA0D262CBEE6ED0736A96FA347C8BD856DC76B84EBEB96"),
            ),
        ));
        let p12 = p.pow(12);
        let final_exp = (&p12 - 1u32) / &n;
        let mut prm = Params { p, n, t, g1, g2, final_exp, w2i: vec![], w3i: vec![] };
        let mut w = prm.f_zero();
        w[1] = BigUint::one();
        let w2 = prm.f_mul(&w, &w);
        let w3 = prm.f_mul(&w2, &w);
        prm.w2i = prm.f_inv(&w2);
        prm.w3i = prm.f_inv(&w3);
        prm
    }

    // ---- Fp helpers
    fn sub(&self, a: &BigUint, b: &BigUint) -> BigUint {
        ((a % &self.p) + &self.p - (b % &self.p)) % &self.p
    }
    fn inv(&self, a: &BigUint) -> BigUint {
        a.modpow(&(&self.p - 2u32), &self.p)
    }

    // ---- flat Fp12
    pub fn f_zero(&self) -> F12 {
        vec![BigUint::zero(); 12]
    }
    pub fn f_const(&self, c: &BigUint) -> F12 {
        let mut r = self.f_zero();
        r[0] = c % &self.p;
        r
    }
    pub fn f_one(&self) -> F12 {
        self.f_const(&BigUint::one())
    }
    pub fn f_add(&self, a: &F12, b: &F12) -> F12 {
        a.iter().zip(b).map(|(x, y)| (x + y) % &self.p).collect()
    }
    pub fn f_sub(&self, a: &F12, b: &F12) -> F12 {
        a.iter().zip(b).map(|(x, y)| self.sub(x, y)).collect()
    }
    pub fn f_neg(&self, a: &F12) -> F12 {
        a.iter().map(|x| self.sub(&BigUint::zero(), x)).collect()
    }
    pub fn f_mul(&self, a: &F12, b: &F12) -> F12 {
        let mut r = vec![BigUint::zero(); 23];
        for (i, x) in a.iter().enumerate() {
            if x.is_zero() {
                continue;
            }
            for (j, y) in b.iter().enumerate() {
                if y.is_zero() {
                    continue;
                }
                r[i + j] += x * y;
            }
        }
        // w^12 = -2
        let mut out = Vec::with_capacity(12);
        for k in 0..12 {
            let lo = &r[k] % &self.p;
            let v = if k + 12 < 23 {
                let hi = (&r[k + 12] * 2u32) % &self.p;
                self.sub(&lo, &hi)
            } else {
                lo
            };
            out.push(v);
        }
        out
    }
    pub fn f_pow(&self, a: &F12, e: &BigUint) -> F12 {
        let mut r = self.f_one();
        for i in (0..e.bits()).rev() {
            r = self.f_mul(&r, &r);
            if e.bit(i) {
                r = self.f_mul(&r, a);
            }
        }
        r
    }
    /// Inverse by solving the 12x12 linear system "a * x = 1" (Gauss-Jordan modulo p).
    pub fn f_inv(&self, a: &F12) -> F12 {
        let mut m: Vec<Vec<BigUint>> = vec![vec![BigUint::zero(); 13]; 12];
        for j in 0..12 {
            let mut e = self.f_zero();
            e[j] = BigUint::one();
            let col = self.f_mul(a, &e);
            for i in 0..12 {
                m[i][j] = col[i].clone();
            }
        }
        m[0][12] = BigUint::one();
        for c in 0..12 {
            let piv = (c..12).find(|r| !m[*r][c].is_zero()).expect("f_inv of a zero divisor");
            m.swap(c, piv);
            let inv = self.inv(&m[c][c]);
            for x in m[c].iter_mut() {
                *x = (&*x * &inv) % &self.p;
            }
            for r in 0..12 {
                if r != c && !m[r][c].is_zero() {
                    let f = m[r][c].clone();
                    for k in 0..13 {
                        let t = (&f * &m[c][k]) % &self.p;
                        m[r][k] = self.sub(&m[r][k], &t);
                    }
                }
            }
        }
        (0..12).map(|i| m[i][12].clone()).collect()
    }
    /// Standard byte order of GM/T 0044: coefficients of w^{11,5,8,2,10,4,7,1,9,3,6,0}.
    pub fn f_bytes(&self, a: &F12) -> Vec<u8> {
        const ORDER: [usize; 12] = [11, 5, 8, 2, 10, 4, 7, 1, 9, 3, 6, 0];
        let mut v = Vec::with_capacity(384);
        for i in ORDER {
            v.extend_from_slice(&be32(&a[i]));
        }
        v
    }

    // ---- E(Fp12): y^2 = x^3 + 5, affine
    fn fp2_to_f(&self, a: &F2) -> F12 {
        let mut r = self.f_zero();
        r[0] = &a.0 % &self.p;
        r[6] = &a.1 % &self.p;
        r
    }
    fn untwist(&self, q: &(F2, F2)) -> (F12, F12) {
        (self.f_mul(&self.fp2_to_f(&q.0), &self.w2i), self.f_mul(&self.fp2_to_f(&q.1), &self.w3i))
    }
    fn e12_on_curve(&self, pt: &(F12, F12)) -> bool {
        let (x, y) = pt;
        let l = self.f_mul(y, y);
        let r = self.f_add(&self.f_mul(&self.f_mul(x, x), x), &self.f_const(&BigUint::from(5u32)));
        l == r
    }
    /// Value at P of the line through T and Q (tangent when T == Q), and T+Q (None = infinity).
    fn line(&self, t: &(F12, F12), q: &(F12, F12), p: &(F12, F12)) -> (F12, Option<(F12, F12)>) {
        let (x1, y1) = t;
        let (x2, y2) = q;
        let (xp, yp) = p;
        let lam;
        if x1 == x2 {
            if y1 != y2 {
                return (self.f_sub(xp, x1), None);
            }
            let three = self.f_const(&BigUint::from(3u32));
            let num = self.f_mul(&three, &self.f_mul(x1, x1));
            lam = self.f_mul(&num, &self.f_inv(&self.f_add(y1, y1)));
        } else {
            lam = self.f_mul(&self.f_sub(y2, y1), &self.f_inv(&self.f_sub(x2, x1)));
        }
        let val = self.f_sub(&self.f_sub(yp, y1), &self.f_mul(&lam, &self.f_sub(xp, x1)));
        let x3 = self.f_sub(&self.f_sub(&self.f_mul(&lam, &lam), x1), x2);
        let y3 = self.f_sub(&self.f_mul(&lam, &self.f_sub(x1, &x3)), y1);
        (val, Some((x3, y3)))
    }

    /// R-ate pairing e(P, Q), P in G1 (affine over Fp), Q in G2 (affine on the twist).
    /// Returns None if either argument is infinity or off its curve.
    pub fn pairing(&self, p1: &G1, q2: &G2) -> Option<F12> {
        if !self.g1_on_curve(p1) || !self.g2_on_curve(q2) {
            return None;
        }
        let (px, py) = p1.as_ref()?;
        let q2 = q2.as_ref()?;
        let p = (self.f_const(px), self.f_const(py));
        let q = self.untwist(q2);
        debug_assert!(self.e12_on_curve(&q));
        let a = &self.t * 6u32 + 2u32;
        let mut f = self.f_one();
        let mut t = q.clone();
        for i in (0..a.bits() - 1).rev() {
            let (l, nt) = self.line(&t, &t, &p);
            f = self.f_mul(&self.f_mul(&f, &f), &l);
            t = nt?;
            if a.bit(i) {
                let (l, nt) = self.line(&t, &q, &p);
                f = self.f_mul(&f, &l);
                t = nt?;
            }
        }
        let q1 = (self.f_pow(&q.0, &self.p), self.f_pow(&q.1, &self.p));
        let q2f = (self.f_pow(&q1.0, &self.p), self.f_pow(&q1.1, &self.p));
        let q2n = (q2f.0, self.f_neg(&q2f.1));
        let (l, nt) = self.line(&t, &q1, &p);
        f = self.f_mul(&f, &l);
        t = nt?;
        let (l, _) = self.line(&t, &q2n, &p);
        f = self.f_mul(&f, &l);
        Some(self.f_pow(&f, &self.final_exp))
    }

    // ---- G1 (E(Fp): y^2 = x^3 + 5)
    pub fn g1_on_curve(&self, pt: &G1) -> bool {
        match pt {
            None => false,
            Some((x, y)) => {
                x < &self.p && y < &self.p && (y * y) % &self.p == (x * x * x + 5u32) % &self.p
            }
        }
    }
    pub fn g1_add(&self, a: &G1, b: &G1) -> G1 {
        let (x1, y1) = match a {
            None => return b.clone(),
            Some(v) => v,
        };
        let (x2, y2) = match b {
            None => return a.clone(),
            Some(v) => v,
        };
        let p = &self.p;
        let lam = if x1 == x2 {
            if ((y1 + y2) % p).is_zero() {
                return None;
            }
            (BigUint::from(3u32) * x1 * x1 % p) * self.inv(&((y1 + y1) % p)) % p
        } else {
            self.sub(y2, y1) * self.inv(&self.sub(x2, x1)) % p
        };
        let x3 = self.sub(&self.sub(&(&lam * &lam), x1), x2);
        let y3 = self.sub(&(&lam * self.sub(x1, &x3)), y1);
        Some((x3, y3))
    }
    pub fn g1_neg(&self, a: &G1) -> G1 {
        a.as_ref().map(|(x, y)| (x.clone(), self.sub(&BigUint::zero(), y)))
    }
    pub fn g1_mul(&self, k: &BigUint, pt: &G1) -> G1 {
        let mut r: G1 = None;
        for i in (0..k.bits()).rev() {
            r = self.g1_add(&r, &r);
            if k.bit(i) {
                r = self.g1_add(&r, pt);
            }
        }
        r
    }
    /// 04 || x || y  (the point at infinity: the single byte 00, as in SEC1)
    pub fn g1_bytes(&self, pt: &G1) -> Vec<u8> {
        let (x, y) = match pt.as_ref() {
            Some(v) => v,
            None => return vec![0u8],
        };
        let mut v = vec![4u8];
        v.extend_from_slice(&be32(x));
        v.extend_from_slice(&be32(y));
        v
    }
    /// Strict: 65 bytes, prefix 04, coordinates < p, on curve.
    pub fn g1_decode(&self, b: &[u8]) -> Option<G1> {
        if b.len() != 65 || b[0] != 4 {
            return None;
        }
        let pt = Some((BigUint::from_bytes_be(&b[1..33]), BigUint::from_bytes_be(&b[33..65])));
        if self.g1_on_curve(&pt) {
            Some(pt)
        } else {
            None
        }
    }

    // ---- Fp2 / G2 (E'(Fp2): y^2 = x^3 + 5u)
    fn m2(&self, a: &F2, b: &F2) -> F2 {
        let p = &self.p;
        (self.sub(&(&a.0 * &b.0), &(&a.1 * &b.1 * 2u32)), (&a.0 * &b.1 + &a.1 * &b.0) % p)
    }
    fn a2(&self, a: &F2, b: &F2) -> F2 {
        ((&a.0 + &b.0) % &self.p, (&a.1 + &b.1) % &self.p)
    }
    fn s2(&self, a: &F2, b: &F2) -> F2 {
        (self.sub(&a.0, &b.0), self.sub(&a.1, &b.1))
    }
    fn i2(&self, a: &F2) -> F2 {
        let d = self.inv(&((&a.0 * &a.0 + &a.1 * &a.1 * 2u32) % &self.p));
        ((&a.0 * &d) % &self.p, self.sub(&BigUint::zero(), &(&a.1 * &d)))
    }
    /// Jacobian (X, Y, Z) on the twist -> affine (X/Z^2, Y/Z^3); used only to read library points.
    pub fn twist_affine(&self, x: &F2, y: &F2, z: &F2) -> (F2, F2) {
        let zi = self.i2(z);
        let zi2 = self.m2(&zi, &zi);
        (self.m2(x, &zi2), self.m2(y, &self.m2(&zi2, &zi)))
    }
    pub fn g2_neg(&self, a: &G2) -> G2 {
        let zero = (BigUint::zero(), BigUint::zero());
        a.as_ref().map(|(x, y)| (x.clone(), self.s2(&zero, y)))
    }
    pub fn g2_on_curve(&self, pt: &G2) -> bool {
        match pt {
            None => false,
            Some((x, y)) => {
                if x.0 >= self.p || x.1 >= self.p || y.0 >= self.p || y.1 >= self.p {
                    return false;
                }
                let l = self.m2(y, y);
                let x3 = self.m2(&self.m2(x, x), x);
                let r = self.a2(&x3, &(BigUint::zero(), BigUint::from(5u32)));
                l == r
            }
        }
    }
    pub fn g2_add(&self, a: &G2, b: &G2) -> G2 {
        let (x1, y1) = match a {
            None => return b.clone(),
            Some(v) => v,
        };
        let (x2, y2) = match b {
            None => return a.clone(),
            Some(v) => v,
        };
        let zero = (BigUint::zero(), BigUint::zero());
        let lam = if x1 == x2 {
            if self.a2(y1, y2) == zero {
                return None;
            }
            let three = (BigUint::from(3u32), BigUint::zero());
            self.m2(&self.m2(&three, &self.m2(x1, x1)), &self.i2(&self.a2(y1, y1)))
        } else {
            self.m2(&self.s2(y2, y1), &self.i2(&self.s2(x2, x1)))
        };
        let x3 = self.s2(&self.s2(&self.m2(&lam, &lam), x1), x2);
        let y3 = self.s2(&self.m2(&lam, &self.s2(x1, &x3)), y1);
        Some((x3, y3))
    }
    pub fn g2_mul(&self, k: &BigUint, pt: &G2) -> G2 {
        let mut r: G2 = None;
        for i in (0..k.bits()).rev() {
            r = self.g2_add(&r, &r);
            if k.bit(i) {
                r = self.g2_add(&r, pt);
            }
        }
        r
    }

    // ---- hash to range
    pub fn hn(&self, prefix: u8, z: &[&[u8]]) -> BigUint {
        let mut parts1: Vec<&[u8]> = vec![std::slice::from_ref(&prefix)];
        parts1.extend_from_slice(z);
        let mut parts2 = parts1.clone();
        parts1.push(&[0, 0, 0, 1]);
        parts2.push(&[0, 0, 0, 2]);
        let mut ha = sm3_parts(&parts1).to_vec();
        ha.extend_from_slice(&sm3_parts(&parts2));
        BigUint::from_bytes_be(&ha[..40]) % (&self.n - 1u32) + 1u32
    }
    pub fn h1(&self, id: &[u8], hid: u8) -> BigUint {
        self.hn(1, &[id, &[hid]])
    }
    pub fn h2(&self, msg: &[u8], w: &[u8]) -> BigUint {
        self.hn(2, &[msg, w])
    }

    // ---- KGC
    /// t2 = k * (H1(ID||hid) + k)^-1 mod N; None when H1+k == 0 mod N
    fn extract_scalar(&self, k: &BigUint, id: &[u8], hid: u8) -> Option<BigUint> {
        let t1 = (self.h1(id, hid) + k) % &self.n;
        if t1.is_zero() {
            return None;
        }
        let inv = t1.modpow(&(&self.n - 2u32), &self.n);
        Some((k * inv) % &self.n)
    }
    pub fn extract_sign_key(&self, ks: &BigUint, id: &[u8]) -> Option<G1> {
        Some(self.g1_mul(&self.extract_scalar(ks, id, 1)?, &self.g1))
    }
    pub fn extract_enc_key(&self, ke: &BigUint, id: &[u8], hid: u8) -> Option<G2> {
        Some(self.g2_mul(&self.extract_scalar(ke, id, hid)?, &self.g2))
    }

    // ---- signatures (GM/T 0044.2)
    /// (h, S) for a given r; None when the standard says "pick another r".
    pub fn sign_with_r(&self, g: &F12, ds: &G1, msg: &[u8], r: &BigUint) -> Option<(BigUint, G1)> {
        if r.is_zero() || r >= &self.n {
            return None;
        }
        let w = self.f_pow(g, r);
        let h = self.h2(msg, &self.f_bytes(&w));
        let l = ((r + &self.n) - &h) % &self.n;
        if l.is_zero() {
            return None;
        }
        Some((h, self.g1_mul(&l, ds)))
    }
    /// Strict verification. `g` = e(P1, Ppub-s).
    pub fn verify(&self, g: &F12, ppubs: &G2, id: &[u8], msg: &[u8], h: &BigUint, s: &G1) -> bool {
        if h.is_zero() || h >= &self.n || !self.g1_on_curve(s) || !self.g2_on_curve(ppubs) {
            return false;
        }
        let t = self.f_pow(g, h);
        let h1 = self.h1(id, 1);
        let pp = self.g2_add(&self.g2_mul(&h1, &self.g2), ppubs);
        let u = match self.pairing(s, &pp) {
            Some(u) => u,
            None => return false,
        };
        let w = self.f_mul(&u, &t);
        self.h2(msg, &self.f_bytes(&w)) == *h
    }

    // ---- encryption (GM/T 0044.4, KEM-DEM with XOR stream and MAC = SM3(C2 || K2), K2_len = 32)
    /// `g` = e(Ppub-e, P2). None when "pick another r" (K1 all zero) or input out of domain.
    pub fn encrypt_with_r(&self, g: &F12, ppube: &G1, id: &[u8], msg: &[u8], r: &BigUint) -> Option<Vec<u8>> {
        if r.is_zero() || r >= &self.n || msg.is_empty() {
            return None;
        }
        let qb = self.g1_add(&self.g1_mul(&self.h1(id, 3), &self.g1), ppube);
        let c1 = self.g1_mul(r, &qb);
        let c1b = self.g1_bytes(&c1);
        let w = self.f_pow(g, r);
        let k = kdf(&[&c1b[1..], &self.f_bytes(&w), id].concat(), msg.len() + 32);
        let (k1, k2) = k.split_at(msg.len());
        if k1.iter().all(|b| *b == 0) {
            return None;
        }
        let c2: Vec<u8> = msg.iter().zip(k1).map(|(a, b)| a ^ b).collect();
        let c3 = sm3_parts(&[&c2, k2]);
        let mut out = c1b;
        out.extend_from_slice(&c3);
        out.extend_from_slice(&c2);
        Some(out)
    }
    pub fn decrypt(&self, de: &G2, id: &[u8], ct: &[u8]) -> Result<Vec<u8>, &'static str> {
        if ct.len() < 65 + 32 + 1 {
            return Err("too short");
        }
        let c1 = self.g1_decode(&ct[..65]).ok_or("C1 invalid")?;
        let c3 = &ct[65..97];
        let c2 = &ct[97..];
        let w = self.pairing(&c1, de).ok_or("pairing")?;
        let k = kdf(&[&ct[1..65], &self.f_bytes(&w), id].concat(), c2.len() + 32);
        let (k1, k2) = k.split_at(c2.len());
        if k1.iter().all(|b| *b == 0) {
            return Err("K1 zero");
        }
        let m: Vec<u8> = c2.iter().zip(k1).map(|(a, b)| a ^ b).collect();
        if sm3_parts(&[c2, k2])[..] != c3[..] {
            return Err("C3 mismatch");
        }
        Ok(m)
    }

    // ---- key exchange (GM/T 0044.3), hid = 02
    pub fn kex_r_point(&self, ppube: &G1, id_peer: &[u8], r: &BigUint) -> G1 {
        let q = self.g1_add(&self.g1_mul(&self.h1(id_peer, 2), &self.g1), ppube);
        self.g1_mul(r, &q)
    }
    /// Shared key for one side. `g` = e(Ppub-e, P2). initiator: own ephemeral is R_A.
    #[allow(clippy::too_many_arguments)]
    pub fn kex_key(
        &self,
        g: &F12,
        initiator: bool,
        de_self: &G2,
        r_self: &BigUint,
        ida: &[u8],
        idb: &[u8],
        ra_pt: &G1,
        rb_pt: &G1,
        klen: usize,
    ) -> Option<Vec<u8>> {
        let peer_pt = if initiator { rb_pt } else { ra_pt };
        if !self.g1_on_curve(peer_pt) {
            return None;
        }
        let e_peer = self.pairing(peer_pt, de_self)?;
        let g_r = self.f_pow(g, r_self);
        let e_r = self.f_pow(&e_peer, r_self);
        // A: g1 = g^rA, g2 = e(RB,deA), g3 = g2^rA.   B: g1 = e(RA,deB), g2 = g^rB, g3 = g1^rB
        let (g1v, g2v, g3v) = if initiator { (g_r, e_peer, e_r) } else { (e_peer, g_r, e_r) };
        let mut z = Vec::new();
        z.extend_from_slice(ida);
        z.extend_from_slice(idb);
        z.extend_from_slice(&self.g1_bytes(ra_pt)[1..]);
        z.extend_from_slice(&self.g1_bytes(rb_pt)[1..]);
        z.extend_from_slice(&self.f_bytes(&g1v));
        z.extend_from_slice(&self.f_bytes(&g2v));
        z.extend_from_slice(&self.f_bytes(&g3v));
        Some(kdf(&z, klen))
    }
}

pub fn selftest() -> Result<(), String> {
    with(|s| {
        if !s.g1_on_curve(&s.g1) || !s.g2_on_curve(&s.g2) {
            return Err("ref sm9: generators off curve".to_string());
        }
        if s.g1_mul(&s.n, &s.g1).is_some() || s.g2_mul(&s.n, &s.g2).is_some() {
            return Err("ref sm9: generator order".into());
        }
        // --- Annex A signature example
        let ks = hx("000130E78459D78545CB54C587E02CF480CE0B66340F319F348A1D5B1F2DC5F4");
        let ppubs = s.g2_mul(&ks, &s.g2);
        let ds = s.extract_sign_key(&ks, b"Alice").ok_or("ref sm9: extract")?;
        let (dx, _) = ds.clone().unwrap();
        if dx != hx("A5702F05CF1315305E2D6EB64B0DEB923DB1A0BCF0CAFF90523AC8754AA69820") {
            return Err("ref sm9: annex dsA mismatch".into());
        }
        let g = s.pairing(&s.g1, &ppubs).ok_or("ref sm9: pairing none")?;
        let r = hx("00033C8616B06704813203DFD00965022ED15975C662337AED648835DC4B1CBE");
        let (h, sp) = s.sign_with_r(&g, &ds, b"Chinese IBS standard", &r).ok_or("ref sm9: sign none")?;
        if h != hx("823C4B21E4BD2DFE1ED92C606653E996668563152FC33F55D7BFBB9BD9705ADB") {
            return Err(format!("ref sm9: annex h mismatch {:X}", h));
        }
        let want_s = "0473BF96923CE58B6AD0E13E9643A406D8EB98417C50EF1B29CEF9ADB48B6D598C856712F1C2E0968AB7769F42A99586AED139D5B8B3E15891827CC2ACED9BAA05";
        if hex::encode_upper(s.g1_bytes(&sp)) != want_s {
            return Err(format!("ref sm9: annex S mismatch {}", hex::encode_upper(s.g1_bytes(&sp))));
        }
        if !s.verify(&g, &ppubs, b"Alice", b"Chinese IBS standard", &h, &sp) {
            return Err("ref sm9: annex signature does not verify".into());
        }
        if s.verify(&g, &ppubs, b"Alicf", b"Chinese IBS standard", &h, &sp) {
            return Err("ref sm9: verify accepts wrong id".into());
        }
        // bilinearity / order
        let g11 = s.pairing(&s.g1, &s.g2).unwrap();
        let a = BigUint::from(123456789u64);
        let b = BigUint::from(987654321u64);
        let lhs = s.pairing(&s.g1_mul(&a, &s.g1), &s.g2_mul(&b, &s.g2)).unwrap();
        if lhs != s.f_pow(&g11, &((&a * &b) % &s.n)) || g11 == s.f_one() || s.f_pow(&g11, &s.n) != s.f_one() {
            return Err("ref sm9: bilinearity/order".into());
        }
        // --- Annex A encryption example
        let ke = hx("0001EDEE3778F441F8DEA3D9FA0ACC4E07EE36C93F9A08618AF4AD85CEDE1C22");
        let ppube = s.g1_mul(&ke, &s.g1);
        let de = s.extract_enc_key(&ke, b"Bob", 3).ok_or("ref sm9: extract enc")?;
        let ge = s.pairing(&ppube, &s.g2).unwrap();
        let r = hx("0000AAC0541779C8FC45E3E2CB25C12B5D2576B2129AE8BB5EE2CBE5EC9E785C");
        let ct = s.encrypt_with_r(&ge, &ppube, b"Bob", b"Chinese IBE standard", &r).ok_or("ref sm9: enc none")?;
        let want_c1 = "2445471164490618E1EE20528FF1D545B0F14C8BCAA44544F03DAB5DAC07D8FF42FFCA97D57CDDC05EA405F2E586FEB3A6930715532B8000759F13059ED59AC0";
        let want_c3 = "BA672387BCD6DE5016A158A52BB2E7FC429197BCAB70B25AFEE37A2B9DB9F367";
        let want_c2 = "1B5F5B0E951489682F3E64E1378CDD5DA9513B1C";
        let want = format!("04{want_c1}{want_c3}{want_c2}");
        if hex::encode_upper(&ct) != want {
            return Err(format!("ref sm9: annex ciphertext mismatch {}", hex::encode_upper(&ct)));
        }
        if s.decrypt(&de, b"Bob", &ct).as_deref() != Ok(&b"Chinese IBE standard"[..]) {
            return Err("ref sm9: annex decrypt".into());
        }
        // --- Annex A key exchange example
        let ke = hx("0002E65B0762D042F51F0D23542B13ED8CFA2E9A0E7206361E013A283905E31F");
        let ppube = s.g1_mul(&ke, &s.g1);
        let ge = s.pairing(&ppube, &s.g2).unwrap();
        let dea = s.extract_enc_key(&ke, b"Alice", 2).unwrap();
        let deb = s.extract_enc_key(&ke, b"Bob", 2).unwrap();
        let ra = hx("00005879DD1D51E175946F23B1B41E93BA31C584AE59A426EC1046A4D03B06C8");
        let rb = hx("00018B98C44BEF9F8537FB7D071B2C928B3BC65BD3D69E1EEE213564905634FE");
        let ra_pt = s.kex_r_point(&ppube, b"Bob", &ra);
        let rb_pt = s.kex_r_point(&ppube, b"Alice", &rb);
        let ska = s.kex_key(&ge, true, &dea, &ra, b"Alice", b"Bob", &ra_pt, &rb_pt, 16).ok_or("kex a")?;
        let skb = s.kex_key(&ge, false, &deb, &rb, b"Alice", b"Bob", &ra_pt, &rb_pt, 16).ok_or("kex b")?;
        if hex::encode_upper(&ska) != "C5C13A8F59A97CDEAE64F16A2272A9E7" || ska != skb {
            return Err(format!("ref sm9: annex SK mismatch {} {}", hex::encode_upper(&ska), hex::encode_upper(&skb)));
        }
        Ok(())
    })
}
