//! Seeded search over runs, merging, known-findings matching, minimisation, replay, evidence.

use crate::prng::{label, mix, Prng};
use crate::refmodel::sm3::Sm3;
use crate::world::{Violation, World};
use serde_json::{json, Value};
use std::collections::{BTreeMap, BTreeSet};
use std::io::Write;
use std::path::{Path, PathBuf};
use std::sync::atomic::{AtomicU64, Ordering};
use std::sync::Mutex;
use std::time::{Duration, Instant};

pub const DEFAULT_SEED: u64 = 20261003;
/// VERIF_SEED of this process (schedulers that split one sample over several runs derive the
/// sample from it, so that all its chunks see the same sample).
pub static GLOBAL_SEED: AtomicU64 = AtomicU64::new(DEFAULT_SEED);
pub const HANG_SECS: u64 = 20;

#[derive(Clone, Copy, PartialEq, Eq, Debug)]
pub enum Tier {
    Quick,
    Thorough,
}

impl Tier {
    pub fn name(&self) -> &'static str {
        match self {
            Tier::Quick => "quick",
            Tier::Thorough => "thorough",
        }
    }
    pub fn pick<T>(&self, q: T, t: T) -> T {
        match self {
            Tier::Quick => q,
            Tier::Thorough => t,
        }
    }
}

#[derive(Clone)]
pub struct Found {
    pub v: Violation,
    pub schedule: Vec<Value>,
    pub run: usize,
}

/// Where finished worlds of one run are collected.
pub struct Sink {
    pub run: usize,
    pub stats: BTreeMap<String, u64>,
    pub cases: BTreeMap<String, BTreeSet<u64>>,
    pub found: Vec<Found>,
    pub viol_counts: BTreeMap<String, u64>,
    pub digest: Sm3,
    pub samples: Vec<Value>,
    pub worlds: u64,
    pub ops: u64,
    /// when set, every finished world's schedule is kept in execution order (run-level replay)
    pub record: bool,
    pub histories: Vec<(Vec<Value>, Vec<(String, String, String)>)>,
    /// set when the sink came back from a worker process: the finished digest
    pub digest_done: Option<Vec<u8>>,
}

impl Sink {
    /// One line of a worker process's output.
    pub fn to_json(&self) -> Value {
        json!({
            "run": self.run,
            "stats": self.stats,
            "cases": self.cases.iter().map(|(k, v)| (k.clone(), json!(v.iter().collect::<Vec<_>>()))).collect::<serde_json::Map<String, Value>>(),
            "found": self.found.iter().map(|f| json!({"property": f.v.property, "oracle": f.v.oracle, "step": f.v.step, "detail": f.v.detail, "key": f.v.key, "schedule": f.schedule, "run": f.run})).collect::<Vec<_>>(),
            "viol_counts": self.viol_counts,
            "digest": hex::encode(self.digest.clone().finish()),
            "samples": self.samples,
            "worlds": self.worlds,
            "ops": self.ops,
        })
    }
    pub fn from_json(v: &Value) -> Option<Sink> {
        let mut s = Sink::new(v.get("run")?.as_u64()? as usize);
        for (k, x) in v.get("stats")?.as_object()? {
            s.stats.insert(k.clone(), x.as_u64()?);
        }
        for (k, x) in v.get("cases")?.as_object()? {
            s.cases.insert(k.clone(), x.as_array()?.iter().filter_map(|c| c.as_u64()).collect());
        }
        for f in v.get("found")?.as_array()? {
            let g = |n: &str| f.get(n).and_then(|x| x.as_str()).map(String::from);
            s.found.push(Found {
                v: Violation { property: g("property")?, oracle: g("oracle")?, step: f.get("step")?.as_u64()? as usize, detail: g("detail")?, key: f.get("key")?.clone() },
                schedule: f.get("schedule")?.as_array()?.clone(),
                run: f.get("run")?.as_u64()? as usize,
            });
        }
        for (k, x) in v.get("viol_counts")?.as_object()? {
            s.viol_counts.insert(k.clone(), x.as_u64()?);
        }
        s.digest_done = Some(hex::decode(v.get("digest")?.as_str()?).ok()?);
        s.samples = v.get("samples")?.as_array()?.clone();
        s.worlds = v.get("worlds")?.as_u64()?;
        s.ops = v.get("ops")?.as_u64()?;
        Some(s)
    }

    pub fn new(run: usize) -> Sink {
        Sink {
            run,
            stats: BTreeMap::new(),
            cases: BTreeMap::new(),
            found: vec![],
            viol_counts: BTreeMap::new(),
            digest: Sm3::new(),
            samples: vec![],
            worlds: 0,
            ops: 0,
            record: false,
            histories: vec![],
            digest_done: None,
        }
    }
    pub fn done(&mut self, w: World) {
        if let Some(v) = JOURNAL_CUM.lock().unwrap().as_mut() {
            v.extend(w.history.iter().cloned());
            v.push(json!({"op":"world.reset"}));
        }
        if self.record {
            let v: Vec<(String, String, String)> = w.violations.iter().map(|v| (v.property.clone(), v.oracle.clone(), v.key.to_string())).collect();
            self.histories.push((w.history.clone(), v));
        }
        self.worlds += 1;
        self.ops += w.history.len() as u64;
        if !w.nondeterministic {
            self.digest.update(w.digest_hex().as_bytes());
        }
        for (k, v) in &w.stats {
            *self.stats.entry(k.clone()).or_insert(0) += v;
        }
        for (p, s) in &w.cases {
            self.cases.entry(p.clone()).or_default().extend(s.iter().copied());
        }
        if let Some(e) = &w.invalid {
            // a generator produced a malformed schedule: harness bug, never a violation
            *self.stats.entry("harness.invalid-schedule".into()).or_insert(0) += 1;
            if self.samples.len() < 4 {
                self.samples.push(json!({"invalid": e, "schedule": w.history}));
            }
        }
        for v in &w.violations {
            let k = format!("{}|{}|{}", v.property, v.oracle, v.key);
            let c = self.viol_counts.entry(k).or_insert(0);
            *c += 1;
            if *c <= 2 {
                let mut sched = w.history.clone();
                sched.truncate(v.step);
                self.found.push(Found { v: v.clone(), schedule: sched, run: self.run });
            }
        }
        // every evidence file carries at least one concrete schedule: run 0's first world
        if self.run == 0 && self.samples.is_empty() && w.samples.is_empty() && !w.history.is_empty() {
            self.samples.push(json!({"schedule": w.history.iter().take(12).cloned().collect::<Vec<_>>()}));
        }
        for s in w.samples {
            if self.samples.len() < 4 {
                self.samples.push(s);
            }
        }
    }
}

pub struct Merged {
    pub runs: usize,
    pub stats: BTreeMap<String, u64>,
    pub cases: BTreeMap<String, BTreeSet<u64>>,
    pub found: Vec<Found>,
    pub viol_counts: BTreeMap<String, u64>,
    pub digest: String,
    pub samples: Vec<Value>,
    pub worlds: u64,
    pub ops: u64,
}

pub type RunFn = fn(&mut Prng, Tier, usize, &mut Sink);
/// Which runs get a worker process of their own (a FRESH process: every lazily initialised static
/// of the library is still untouched, so first-use races between two callers can occur at all).
pub type IsoFn = fn(Tier, usize) -> bool;

pub fn run_seed(seed: u64, prop: &str, tier: Tier, i: usize) -> u64 {
    mix(seed, &[label(prop), label(tier.name()), i as u64])
}

// ---- watchdog: real (non-RNG) hangs -------------------------------------------------------------

static WATCH: Mutex<BTreeMap<u64, (Instant, usize)>> = Mutex::new(BTreeMap::new());
static WATCH_ID: AtomicU64 = AtomicU64::new(1);
/// Extra allowance for the op in flight on this thread: one second per 2 MiB of data in the world
/// (a 512 MiB message is hashed several times by library and reference; that is not a hang).
static EXTRA: Mutex<BTreeMap<u64, u64>> = Mutex::new(BTreeMap::new());
pub fn set_allowance(extra_secs: u64) {
    let id = MY_WATCH_ID.with(|i| *i);
    EXTRA.lock().unwrap().insert(id, extra_secs);
}
thread_local! {
    static MY_WATCH_ID: u64 = WATCH_ID.fetch_add(1, Ordering::Relaxed);
    static CUR_RUN: std::cell::Cell<usize> = std::cell::Cell::new(usize::MAX);
}
static JOURNAL_PATH: Mutex<Option<PathBuf>> = Mutex::new(None);
static JOURNAL_PROP: Mutex<String> = Mutex::new(String::new());

pub fn set_journal_property(p: &str) {
    *JOURNAL_PROP.lock().unwrap() = p.to_string();
}

/// Cumulative journal: everything executed so far in this process (worlds separated by
/// `world.reset`, runs by `thread.reset`) precedes the in-flight world in the journal file, so that
/// the file reproduces a hang that needs what earlier runs left behind.
static JOURNAL_CUM: Mutex<Option<Vec<Value>>> = Mutex::new(None);
pub fn journal_cumulative() {
    *JOURNAL_CUM.lock().unwrap() = Some(vec![]);
}
pub fn journal_mark(op: Value) {
    if let Some(v) = JOURNAL_CUM.lock().unwrap().as_mut() {
        v.push(op);
    }
}

pub fn set_journal(p: Option<PathBuf>) {
    *JOURNAL_PATH.lock().unwrap() = p;
}

/// Called by World::exec before every op.
pub fn journal(history: &[Value], op: &Value) {
    let id = MY_WATCH_ID.with(|i| *i);
    let run = CUR_RUN.with(|c| c.get());
    WATCH.lock().unwrap().insert(id, (Instant::now(), run));
    let jp = JOURNAL_PATH.lock().unwrap().clone();
    if let Some(p) = jp {
        let mut sched: Vec<Value> = JOURNAL_CUM.lock().unwrap().clone().unwrap_or_default();
        sched.extend(history.iter().cloned());
        sched.push(op.clone());
        let prop = JOURNAL_PROP.lock().unwrap().clone();
        let doc = json!({"format": 1, "inflight": true, "property": prop, "oracle": "outcome-class (in-flight op did not return)", "schedule": sched});
        let tmp = p.with_extension("tmp");
        if let Ok(mut f) = std::fs::File::create(&tmp) {
            let _ = f.write_all(doc.to_string().as_bytes());
            let _ = std::fs::rename(&tmp, &p);
        }
    }
}

/// A compound op (C14-M3: thousands of library calls, child processes) is not one library call:
/// take it off the watchdog; the calls it makes are tracked individually in their own worlds.
pub fn watch_exempt() {
    let id = MY_WATCH_ID.with(|i| *i);
    WATCH.lock().unwrap().remove(&id);
}

/// The run this thread works for (a `par` caller thread inherits it from the thread that runs the op).
pub fn current_run() -> usize {
    CUR_RUN.with(|c| c.get())
}
pub fn set_current_run(r: usize) {
    CUR_RUN.with(|c| c.set(r));
}

/// Re-arm the watchdog from inside a compound op (one library call is about to start).
pub fn touch() {
    let id = MY_WATCH_ID.with(|i| *i);
    let run = CUR_RUN.with(|c| c.get());
    WATCH.lock().unwrap().insert(id, (Instant::now(), run));
}

pub fn journal_done() {
    let id = MY_WATCH_ID.with(|i| *i);
    WATCH.lock().unwrap().remove(&id);
}

/// Returns the run index of an op that has been in flight for longer than HANG_SECS, if any.
pub fn stuck_run() -> Option<usize> {
    let g = WATCH.lock().unwrap();
    let extra = EXTRA.lock().unwrap();
    for (id, (t, run)) in g.iter() {
        if t.elapsed() > Duration::from_secs(HANG_SECS + extra.get(id).copied().unwrap_or(0)) {
            return Some(*run);
        }
    }
    None
}

pub fn spawn_watchdog(on_stuck: impl Fn(usize) + Send + 'static) {
    std::thread::spawn(move || loop {
        std::thread::sleep(Duration::from_millis(500));
        if let Some(run) = stuck_run() {
            // on_stuck prints the VIOLATION line (outcome=timeout): this is a violation, exit 1
            on_stuck(run);
            std::process::exit(1);
        }
    });
}

// ---- running ------------------------------------------------------------------------------------

pub fn sample_prng(what: &str, sample: usize) -> Prng {
    Prng::new(mix(GLOBAL_SEED.load(Ordering::SeqCst), &[label(what), sample as u64]))
}

/// One run = one fresh OS thread: whatever per-thread state the library keeps (thread_local caches)
/// starts empty, so a run is a pure function of (seed, property, tier, i) and can be replayed alone.
pub fn run_one(f: RunFn, seed: u64, prop: &str, tier: Tier, i: usize) -> Sink {
    run_one_rec(f, seed, prop, tier, i, false)
}

pub fn run_one_rec(f: RunFn, seed: u64, prop: &str, tier: Tier, i: usize, record: bool) -> Sink {
    GLOBAL_SEED.store(seed, Ordering::SeqCst);
    let prop = prop.to_string();
    std::thread::Builder::new()
        .stack_size(64 << 20)
        .spawn(move || {
            CUR_RUN.with(|c| c.set(i));
            let mut prng = Prng::new(run_seed(seed, &prop, tier, i));
            let mut sink = Sink::new(i);
            sink.record = record;
            f(&mut prng, tier, i, &mut sink);
            sink
        })
        .expect("spawn run thread")
        .join()
        .unwrap_or_else(|_| {
            eprintln!("HARNESS PANIC in run {i}");
            std::process::exit(101)
        })
}

/// The whole run as one schedule: every world in execution order, separated by `world.reset`,
/// up to and including the first world that violates (property, oracle). Used when a violation
/// depends on state the library kept from earlier worlds of the run.
/// The same, computed by a fresh child process (`gmsim record ...`): the parent may by now hold
/// library state left by confirmation or minimisation attempts, and a generator's choices depend
/// on what the library answers.
pub fn recorded_schedule(level: &str, seed: u64, prop: &str, tier: Tier, run: usize, n: usize, oracle: &str, key: &Value) -> Option<Vec<Value>> {
    let exe = std::env::current_exe().ok()?;
    let out = std::process::Command::new(exe)
        .args(["record", level, prop, tier.name(), &seed.to_string(), &run.to_string(), &n.to_string(), oracle, &key.to_string()])
        .stderr(std::process::Stdio::null())
        .output()
        .ok()?;
    let v: Value = serde_json::from_slice(&out.stdout).ok()?;
    v.as_array().cloned()
}

pub fn run_level_schedule(f: RunFn, seed: u64, prop: &str, tier: Tier, i: usize, oracle: &str, key: &str) -> Option<Vec<Value>> {
    let sink = run_one_rec(f, seed, prop, tier, i, true);
    let mut out = vec![];
    for (h, v) in sink.histories {
        out.extend(h);
        if v.iter().any(|(p, o, k)| p == prop && o == oracle && (key.is_empty() || k == key)) {
            return Some(out);
        }
        out.push(json!({"op":"world.reset"}));
    }
    None
}

/// Number of worker processes (run i is executed by worker i mod N, after that worker's earlier runs).
pub fn workers() -> usize {
    std::env::var("GMSIM_WORKERS").ok().and_then(|s| s.parse().ok()).filter(|n| *n >= 1).unwrap_or_else(|| std::thread::available_parallelism().map(|n| n.get()).unwrap_or(16))
}

/// Why the batch could not be completed.
pub enum WorkerFail {
    /// an op of this run exceeded HANG_SECS
    Stuck(usize),
    /// a worker process ended abnormally (exit code, 134 for a signal)
    Died(i32),
}

/// `gmsim worker <ID> <tier> <seed> <runs> <w> <n>`: runs w, w+n, w+2n, ... one after the other, each
/// in a fresh thread; one JSON line per finished run on stdout.
pub fn worker_main(f: RunFn, iso: IsoFn, seed: u64, prop: &str, tier: Tier, runs: usize, w: usize, n: usize) -> i32 {
    use std::io::Write as _;
    set_journal_property(prop);
    spawn_watchdog(|run| {
        println!("{}", json!({"stuck": run}));
        let _ = std::io::stdout().flush();
        std::process::exit(3);
    });
    let out = std::io::stdout();
    let mut i = w;
    while i < runs {
        // n >= runs: this process was started for run w alone
        if n >= runs || !iso(tier, i) {
            let s = run_one(f, seed, prop, tier, i);
            let mut o = out.lock();
            let _ = writeln!(o, "{}", s.to_json());
            let _ = o.flush();
        }
        i += n;
    }
    0
}

/// The batch. Parallelism is by PROCESS: the library under test is free to keep process-wide state
/// (statics, caches), and two runs sharing a process at the same time would make each other's
/// outcome depend on real thread timing. Inside a worker the runs are sequential, so everything a
/// run can see is decided by (seed, property, tier, worker count).
pub fn run_all(f: RunFn, iso: IsoFn, seed: u64, prop: &str, tier: Tier, runs: usize, serial: bool) -> Result<Merged, WorkerFail> {
    GLOBAL_SEED.store(seed, Ordering::SeqCst);
    let sinks: Vec<Sink> = if serial {
        (0..runs).map(|i| run_one(f, seed, prop, tier, i)).collect()
    } else {
        let n = workers().min(runs.max(1));
        let exe = std::env::current_exe().expect("current_exe");
        // one worker process: its runs, and whether it got stuck / how it ended
        let spawn = {
            let (exe, prop) = (exe.clone(), prop.to_string());
            move |w: usize, n: usize| -> (Vec<Sink>, Option<usize>, Option<i32>) {
                use std::io::BufRead as _;
                let mut c = std::process::Command::new(&exe)
                    .args(["worker", &prop, tier.name(), &seed.to_string(), &runs.to_string(), &w.to_string(), &n.to_string()])
                    .stdout(std::process::Stdio::piped())
                    .spawn()
                    .expect("spawn worker");
                let out = c.stdout.take().unwrap();
                let mut sinks = vec![];
                let mut stuck = None;
                for l in std::io::BufReader::new(out).lines().map_while(|l| l.ok()) {
                    match serde_json::from_str::<Value>(&l) {
                        Ok(v) => {
                            if let Some(r) = v.get("stuck").and_then(|r| r.as_u64()) {
                                stuck = Some(r as usize);
                            } else if let Some(s) = Sink::from_json(&v) {
                                sinks.push(s);
                            }
                        }
                        Err(_) => println!("{l}"), // a diagnostic the worker printed: pass it on
                    }
                }
                let st = c.wait().expect("wait worker");
                let died = if st.success() { None } else { Some(st.code().unwrap_or(134)) };
                (sinks, stuck, died)
            }
        };
        let mut handles = vec![];
        for w in 0..n {
            let sp = spawn.clone();
            handles.push(std::thread::spawn(move || vec![sp(w, n)]));
        }
        // isolated runs: one process each, `n` lanes of them side by side
        let isolated: Vec<usize> = (0..runs).filter(|i| iso(tier, *i)).collect();
        let lanes = n.min(isolated.len());
        for lane in 0..lanes {
            let sp = spawn.clone();
            let mine: Vec<usize> = isolated.iter().copied().skip(lane).step_by(lanes).collect();
            handles.push(std::thread::spawn(move || mine.into_iter().map(|i| sp(i, runs.max(i + 1))).collect()));
        }
        let mut sinks = vec![];
        let mut fail: Option<WorkerFail> = None;
        for h in handles {
            for (s, stuck, died) in h.join().expect("worker reader") {
                sinks.extend(s);
                if let Some(r) = stuck {
                    fail = Some(WorkerFail::Stuck(r));
                } else if let (Some(code), true) = (died, fail.is_none()) {
                    fail = Some(WorkerFail::Died(code));
                }
            }
        }
        if let Some(f) = fail {
            return Err(f);
        }
        sinks.sort_by_key(|s| s.run);
        if sinks.len() != runs {
            return Err(WorkerFail::Died(101));
        }
        sinks
    };
    let mut m = Merged {
        runs,
        stats: BTreeMap::new(),
        cases: BTreeMap::new(),
        found: vec![],
        viol_counts: BTreeMap::new(),
        digest: String::new(),
        samples: vec![],
        worlds: 0,
        ops: 0,
    };
    let mut d = Sm3::new();
    for s in sinks {
        match &s.digest_done {
            Some(b) => d.update(b),
            None => d.update(&s.digest.clone().finish()),
        };
        for (k, v) in s.stats {
            *m.stats.entry(k).or_insert(0) += v;
        }
        for (p, set) in s.cases {
            m.cases.entry(p).or_default().extend(set);
        }
        for (k, v) in s.viol_counts {
            *m.viol_counts.entry(k).or_insert(0) += v;
        }
        m.found.extend(s.found);
        for x in s.samples {
            if m.samples.len() < 6 {
                m.samples.push(x);
            }
        }
        m.worlds += s.worlds;
        m.ops += s.ops;
    }
    m.digest = hex::encode(d.finish());
    Ok(m)
}

/// Everything worker `run mod n` executed up to and including `run`, as one schedule: runs separated
/// by `thread.reset` (each run has its own thread), worlds by `world.reset`. For a violation that
/// depends on state the library kept PROCESS-wide from earlier runs.
pub fn worker_level_schedule(f: RunFn, iso: IsoFn, seed: u64, prop: &str, tier: Tier, run: usize, n: usize, oracle: &str, key: &str) -> Option<Vec<Value>> {
    let mut out = vec![];
    // an isolated run had a process of its own
    let mut r = if iso(tier, run) { run } else { run % n };
    while r <= run {
        if r != run && iso(tier, r) {
            r += n;
            continue;
        }
        let sink = run_one_rec(f, seed, prop, tier, r, true);
        for (h, v) in sink.histories {
            out.extend(h);
            if r == run && v.iter().any(|(p, o, k)| p == prop && o == oracle && (key.is_empty() || k == key)) {
                return Some(out);
            }
            out.push(json!({"op":"world.reset"}));
        }
        out.push(json!({"op":"thread.reset"}));
        r += n;
    }
    None
}

// ---- replay / minimise --------------------------------------------------------------------------

pub fn exec_schedule(schedule: &[Value], keep_trace: bool) -> World {
    let mut w = World::new();
    w.keep_trace = keep_trace;
    // `thread.reset`: what follows is executed by a new thread (as each run of a batch is)
    let mut segs: Vec<Vec<Value>> = vec![vec![]];
    for op in schedule {
        if op.get("op").and_then(|o| o.as_str()) == Some("thread.reset") {
            segs.push(vec![]);
        } else {
            segs.last_mut().unwrap().push(op.clone());
        }
    }
    let many = segs.len() > 1;
    for seg in segs {
        let go = move |mut w: World| {
            for op in seg {
                w.exec(op);
                if w.invalid.is_some() {
                    break;
                }
            }
            w
        };
        w = if many {
            std::thread::Builder::new().stack_size(64 << 20).spawn(move || go(w)).expect("spawn").join().unwrap_or_else(|_| {
                eprintln!("HARNESS PANIC in a replay thread");
                std::process::exit(101)
            })
        } else {
            go(w)
        };
        if w.invalid.is_some() {
            break;
        }
    }
    w
}

/// Re-execution for the minimiser, in a FRESH PROCESS: neither per-thread nor process-wide state
/// the library may keep (a cache, a poisoned lock) carries over from one candidate schedule to the
/// next, nor from the minimiser into anything the parent does afterwards.
fn fails_same(schedule: &[Value], property: &str, oracle: &str, key: &Value) -> bool {
    static N: AtomicU64 = AtomicU64::new(0);
    let dir = std::env::temp_dir();
    let path = dir.join(format!("gmsim-min-{}-{}.json", std::process::id(), N.fetch_add(1, Ordering::Relaxed)));
    // same property, same oracle AND same (entry point, input class, outcome): a shortened
    // schedule that fails in another class (possibly a known finding) is another violation
    let doc = json!({"format": 1, "property": property, "oracle": oracle, "key": key, "schedule": schedule});
    if std::fs::write(&path, doc.to_string()).is_err() {
        return false;
    }
    let exe = match std::env::current_exe() {
        Ok(e) => e,
        Err(_) => return false,
    };
    let st = std::process::Command::new(exe).arg("replay").arg(&path).arg("--quiet").stdout(std::process::Stdio::null()).stderr(std::process::Stdio::null()).status();
    let _ = std::fs::remove_file(&path);
    matches!(st.map(|s| s.code()), Ok(Some(1)))
}

fn shrink_hex_fields(op: &Value) -> Vec<Value> {
    // candidate simplifications of one op: shorter "hex" payloads for `set`
    let mut out = vec![];
    if op.get("op").and_then(|v| v.as_str()) == Some("set") {
        if let Some(h) = op.get("hex").and_then(|v| v.as_str()) {
            let n = h.len() / 2;
            for newlen in [0usize, 1, n / 2] {
                if newlen < n {
                    let mut o = op.clone();
                    o["hex"] = json!(h[..newlen * 2].to_string());
                    out.push(o);
                }
            }
        }
    }
    if let Some(r) = op.get("rng") {
        if let Some(c) = r.get("c").and_then(|v| v.as_array()) {
            if c.len() > 1 {
                for drop in 0..c.len() {
                    let mut o = op.clone();
                    let mut cc = c.clone();
                    cc.remove(drop);
                    o["rng"]["c"] = json!(cc);
                    out.push(o);
                }
            }
        }
    }
    out
}

/// Greedy delta debugging over the schedule: drop ops (chunks, then singles), then simplify ops.
pub fn minimise(schedule: &[Value], property: &str, oracle: &str, key: &Value, budget: usize) -> (Vec<Value>, usize) {
    let t0 = Instant::now();
    // long (run-level) schedules get a wall-clock budget as well
    let budget = if schedule.len() > 2000 { budget.min(60) } else { budget };
    let mut cur = schedule.to_vec();
    let mut tries = 0usize;
    let fails_same = |s: &[Value], p: &str, o: &str| -> bool {
        if t0.elapsed() > Duration::from_secs(120) {
            return false;
        }
        fails_same(s, p, o, key)
    };
    let mut chunk = (cur.len() / 2).max(1);
    while chunk >= 1 && tries < budget {
        let mut i = 0;
        let mut progressed = false;
        while i < cur.len() && tries < budget {
            let end = (i + chunk).min(cur.len());
            let mut cand = cur.clone();
            cand.drain(i..end);
            tries += 1;
            if !cand.is_empty() && fails_same(&cand, property, oracle) {
                cur = cand;
                progressed = true;
            } else {
                i += chunk;
            }
        }
        if chunk == 1 && !progressed {
            break;
        }
        if !progressed {
            chunk /= 2;
        }
    }
    let mut i = 0;
    while i < cur.len() && tries < budget {
        let mut improved = false;
        for cand_op in shrink_hex_fields(&cur[i]) {
            if tries >= budget {
                break;
            }
            let mut cand = cur.clone();
            cand[i] = cand_op;
            tries += 1;
            if fails_same(&cand, property, oracle) {
                cur = cand;
                improved = true;
                break;
            }
        }
        if !improved {
            i += 1;
        }
    }
    (cur, tries)
}

pub fn tree_rev() -> String {
    let out = std::process::Command::new("git").args(["-C", "/repo", "rev-parse", "--short", "HEAD"]).output();
    let mut s = out.ok().map(|o| String::from_utf8_lossy(&o.stdout).trim().to_string()).unwrap_or_default();
    let dirty = std::process::Command::new("git").args(["-C", "/repo", "status", "--porcelain", "--untracked-files=no"]).output();
    if dirty.ok().map(|o| !o.stdout.is_empty()).unwrap_or(false) {
        s.push_str("+dirty");
    }
    s
}

pub fn write_replay(dir: &Path, property: &str, seed: u64, tier: Tier, f: &Found, schedule: &[Value], minimised: bool, n: usize) -> PathBuf {
    std::fs::create_dir_all(dir).ok();
    let path = dir.join(format!("{}-{}-{}-{}.json", property, seed, f.run, n));
    let doc = json!({
        "format": 1,
        "property": property,
        "oracle": f.v.oracle,
        "tier": tier.name(),
        "verif_seed": seed,
        "run": f.run,
        "minimised": minimised,
        "tree": tree_rev(),
        "detail": f.v.detail,
        "key": f.v.key,
        "schedule": schedule,
    });
    std::fs::write(&path, serde_json::to_string_pretty(&doc).unwrap()).expect("write replay");
    path
}

/// `gmsim replay <file>`: exit 1 and print the violation if the schedule still violates.
pub fn replay_file(path: &Path, quiet: bool) -> i32 {
    let txt = match std::fs::read_to_string(path) {
        Ok(t) => t,
        Err(e) => {
            eprintln!("cannot read {}: {e}", path.display());
            return 2;
        }
    };
    let doc: Value = match serde_json::from_str(&txt) {
        Ok(v) => v,
        Err(e) => {
            eprintln!("bad replay file: {e}");
            return 2;
        }
    };
    let sched = doc.get("schedule").and_then(|v| v.as_array()).cloned().unwrap_or_default();
    let want_prop = doc.get("property").and_then(|v| v.as_str()).unwrap_or("").to_string();
    let want_oracle = doc.get("oracle").and_then(|v| v.as_str()).unwrap_or("").to_string();
    let inflight = doc.get("inflight").and_then(|v| v.as_bool()).unwrap_or(false);
    let p2 = want_prop.clone();
    spawn_watchdog(move |_| {
        println!("REPLAY outcome=timeout (an op exceeded {HANG_SECS}s)");
        println!("VIOLATION property={} replay=<this file>", if p2.is_empty() { "C20" } else { &p2 });
    });
    let w = exec_schedule(&sched, !quiet);
    for l in &w.trace {
        println!("{l}");
    }
    println!("digest {}", w.digest_hex());
    if let Some(e) = &w.invalid {
        println!("REPLAY invalid schedule: {e}");
        return 2;
    }
    let want_key = doc.get("key").cloned().unwrap_or(Value::Null);
    let hit: Vec<&Violation> = w
        .violations
        .iter()
        .filter(|v| inflight || want_prop.is_empty() || (v.property == want_prop && (want_oracle.is_empty() || v.oracle == want_oracle) && (want_key.is_null() || v.key == want_key)))
        .collect();
    if hit.is_empty() {
        println!("REPLAY no violation of {want_prop}/{want_oracle} reproduced ({} other)", w.violations.len());
        0
    } else {
        for v in hit {
            println!("REPLAY VIOLATION property={} oracle={} step={} {}", v.property, v.oracle, v.step, v.detail);
        }
        1
    }
}

// ---- known findings -----------------------------------------------------------------------------

pub struct Known {
    pub entries: Vec<Value>,
}

impl Known {
    pub fn load(path: &Path) -> Known {
        let mut entries = vec![];
        if let Ok(t) = std::fs::read_to_string(path) {
            for l in t.lines() {
                let l = l.trim();
                if l.is_empty() || l.starts_with('#') {
                    continue;
                }
                match serde_json::from_str::<Value>(l) {
                    Ok(v) => entries.push(v),
                    Err(e) => {
                        eprintln!("known_findings.jsonl: bad line: {e}");
                        std::process::exit(2);
                    }
                }
            }
        }
        Known { entries }
    }
    /// A violation is a known finding only if property, oracle, entry point, computed input class
    /// and outcome all match a `status: known` entry. `fixed` entries suppress nothing.
    pub fn matches(&self, v: &Violation) -> Option<&Value> {
        self.entries.iter().find(|e| {
            e.get("status").and_then(|s| s.as_str()) == Some("known")
                && e.get("property").and_then(|s| s.as_str()) == Some(&v.property)
                && e.get("key").map(|k| {
                    let same = |f: &str| k.get(f).is_none() || k.get(f) == v.key.get(f);
                    k.get("oracle").and_then(|o| o.as_str()).map(|o| o == v.oracle).unwrap_or(true) && same("entry") && same("class") && same("outcome")
                }) == Some(true)
        })
    }
}
