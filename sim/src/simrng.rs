//! The random-source seam: scripted 32-byte candidates handed to gm-sm2 / gm-sm9 through the
//! cfg(gm_rs_verif) hooks, a draw budget (bounded liveness without a clock) and panic capture.

use crate::prng::Prng;
use serde_json::{json, Value};
use std::cell::RefCell;
use std::panic::{catch_unwind, AssertUnwindSafe};
use std::rc::Rc;

pub const DRAW_BUDGET: usize = 64;

#[derive(Clone, Debug, Default)]
pub struct RngScript {
    pub cands: Vec<[u8; 32]>,
    pub filler: u64,
    /// observe mode (C14-M3): the bytes of the real generator pass through unchanged and are
    /// only recorded; such a call is not replayable bit-for-bit and is labelled so
    pub real: bool,
}

impl RngScript {
    /// The candidates a party drawing from this script sees, in order: explicit ones, then the
    /// seeded filler, up to the draw budget (the reference parties draw exactly like the library).
    pub fn stream(&self) -> Vec<[u8; 32]> {
        let mut v = self.cands.clone();
        let mut f = Prng::new(self.filler ^ 0x5EED_F111_E400_0001);
        while v.len() < DRAW_BUDGET {
            v.push(f.bytes32());
        }
        v.truncate(DRAW_BUDGET);
        v
    }
    pub fn to_json(&self) -> Value {
        if self.real {
            return json!({"real": true});
        }
        json!({"c": self.cands.iter().map(hex::encode).collect::<Vec<_>>(), "f": self.filler})
    }
    pub fn from_json(v: &Value) -> Option<RngScript> {
        if v.get("real").and_then(|r| r.as_bool()) == Some(true) {
            return Some(RngScript { cands: vec![], filler: 0, real: true });
        }
        let mut cands = vec![];
        for c in v.get("c")?.as_array()? {
            let b = hex::decode(c.as_str()?).ok()?;
            if b.len() != 32 {
                return None;
            }
            let mut a = [0u8; 32];
            a.copy_from_slice(&b);
            cands.push(a);
        }
        Some(RngScript { cands, filler: v.get("f")?.as_u64()?, real: false })
    }
}

#[derive(Clone, Debug, Default)]
pub struct RngLog {
    /// every candidate handed to the library during the call, in order (big-endian bytes)
    pub offered: Vec<[u8; 32]>,
    /// every scalar the library's generator reported as accepted, in order (big-endian bytes)
    pub accepted: Vec<[u8; 32]>,
    pub exceeded: bool,
}

#[derive(Clone, Debug, PartialEq, Eq)]
pub enum Class {
    Ok,
    Err,
    Panic,
    Hang,
}

impl Class {
    pub fn as_str(&self) -> &'static str {
        match self {
            Class::Ok => "Ok",
            Class::Err => "Err",
            Class::Panic => "panic",
            Class::Hang => "hang",
        }
    }
}

pub enum Outcome<T> {
    Done(T),
    Panic(String),
    Hang,
}

struct BudgetExceeded;

// ---- deterministic interleaving of two caller threads -------------------------------------------
// The library has no threads of its own, but its callers may have; state it keeps process-wide
// (a `static` cache) is then shared between them. Two ops run on two OS threads, and the ONLY
// points at which control passes from one to the other are the draws at the RNG seam (plus op
// start and end). Who proceeds at each such point is given by an explicit order string, so one
// order is one exactly repeatable interleaving.

pub struct Gate {
    m: std::sync::Mutex<GateState>,
    cv: std::sync::Condvar,
}

struct GateState {
    turn: Option<u8>,
    order: std::collections::VecDeque<u8>,
    done: Vec<bool>,
    /// waiting for a lock the other caller holds
    blocked: Vec<bool>,
    switches: u32,
    /// bumped on every hand-over: lets a waiter tell a holder that is making progress from one that
    /// is really blocked inside a primitive the simulator does not intercept
    epoch: u64,
    forced: u32,
    /// who held the turn, hand-over by hand-over: the interleaving that actually took place
    trace: Vec<u8>,
    /// which callers have used the lock at an address (bit per caller), and the coin that decides
    /// whether a `try_lock` on a lock another caller uses finds it taken
    lock_users: std::collections::HashMap<usize, u32>,
    coin: u64,
    injected: u32,
    /// consecutive "found the lock taken" hand-overs with no ordinary scheduling point in between
    /// (an ordinary point means somebody got past a primitive, i.e. progress)
    stalled: u32,
}

/// Payload of the panic with which a simulated caller thread leaves the library when both callers
/// wait for each other (or one waits for a lock it holds itself): outcome class `hang`.
pub struct SimDeadlock;

thread_local! {
    static GATE: RefCell<Option<(std::sync::Arc<Gate>, u8)>> = RefCell::new(None);
}

impl Gate {
    pub fn new(order: &[u8]) -> std::sync::Arc<Gate> {
        Gate::new_n(order, 2)
    }
    /// `n` simulated caller threads (2..=26), of which exactly one is runnable at any time.
    pub fn new_n(order: &[u8], n: usize) -> std::sync::Arc<Gate> {
        let g = Gate {
            m: std::sync::Mutex::new(GateState { turn: None, order: order.iter().copied().collect(), done: vec![false; n], blocked: vec![false; n], switches: 0, epoch: 0, forced: 0, trace: vec![], stalled: 0, lock_users: Default::default(), coin: order.iter().fold(0x9E37_79B9_7F4A_7C15u64, |a, b| (a ^ *b as u64).wrapping_mul(0x100_0000_01B3)), injected: 0 }),
            cv: std::sync::Condvar::new(),
        };
        {
            let mut st = g.m.lock().unwrap();
            let first = Gate::pick(&mut st);
            st.turn = first;
        }
        std::sync::Arc::new(g)
    }
    fn pick(st: &mut GateState) -> Option<u8> {
        loop {
            match st.order.pop_front() {
                Some(t) if (t as usize) < st.done.len() && !st.done[t as usize] => return Some(t),
                Some(_) => continue,
                None => return (0..st.done.len() as u8).find(|t| !st.done[*t as usize]),
            }
        }
    }
    pub fn acquire(&self, me: u8) {
        let mut st = self.m.lock().unwrap();
        let mut seen = st.epoch;
        let mut since = std::time::Instant::now();
        while st.turn != Some(me) {
            let (g, _) = self.cv.wait_timeout(st, std::time::Duration::from_millis(500)).unwrap();
            st = g;
            if st.epoch != seen {
                seen = st.epoch;
                since = std::time::Instant::now();
            } else if st.turn != Some(me) && since.elapsed() > std::time::Duration::from_secs(12) {
                // the holder has not reached a scheduling point for 12 s: it is blocked for real in
                // something the simulator does not intercept (Condvar, channel, foreign Once).
                // Let this caller run rather than deadlock the simulation itself.
                st.turn = Some(me);
                st.forced += 1;
                st.epoch += 1;
            }
        }
    }
    fn release(&self, me: u8, finished: bool) {
        let mut st = self.m.lock().unwrap();
        if finished {
            st.done[me as usize] = true;
        }
        st.stalled = 0;
        if st.turn != Some(me) && !finished {
            return; // the turn was taken from this caller while it was blocked for real
        }
        let next = Gate::pick(&mut st);
        if next != Some(me) {
            st.switches += 1;
        }
        st.turn = next;
        if let Some(t) = next {
            if st.trace.len() < 256 {
                st.trace.push(t);
            }
        }
        st.epoch += 1;
        self.cv.notify_all();
    }
    /// The interleaving that took place: which caller proceeded at each scheduling point.
    pub fn trace(&self) -> Vec<u8> {
        self.m.lock().unwrap().trace.clone()
    }
    /// `me` found a lock taken: let the other caller run (it may be the holder, or it may itself be
    /// waiting for something `me` has released meanwhile), then try again. Err = deadlock: the
    /// callers have kept finding their locks taken, turn after turn, without anybody getting past a
    /// primitive in between.
    fn yield_blocked(&self, me: u8) -> Result<(), ()> {
        {
            let mut st = self.m.lock().unwrap();
            let n = st.done.len();
            st.stalled += 1;
            if st.stalled as usize > 2 * n {
                return Err(());
            }
            // the next caller in cyclic order that has not finished
            let other = match (1..n).map(|k| ((me as usize + k) % n) as u8).find(|t| !st.done[*t as usize]) {
                Some(o) => o,
                // nobody else can release it; a few retries, then it is a deadlock with oneself
                None => return Ok(()),
            };
            st.blocked[me as usize] = true;
            st.turn = Some(other);
            st.switches += 1;
            if st.trace.len() < 256 {
                st.trace.push(other);
            }
            st.epoch += 1;
            self.cv.notify_all();
        }
        self.acquire(me);
        self.m.lock().unwrap().blocked[me as usize] = false;
        Ok(())
    }
    fn touched(&self, me: u8, addr: usize) {
        *self.m.lock().unwrap().lock_users.entry(addr).or_insert(0) |= 1 << me;
    }
    /// One time in three a `try_*` finds a lock taken that another caller of this operation uses too.
    fn contended(&self, me: u8, addr: usize) -> bool {
        let mut st = self.m.lock().unwrap();
        let others = st.lock_users.get(&addr).copied().unwrap_or(0) & !(1u32 << me);
        if others == 0 {
            return false;
        }
        st.coin ^= st.coin << 13;
        st.coin ^= st.coin >> 7;
        st.coin ^= st.coin << 17;
        let hit = st.coin % 3 == 0;
        if hit {
            st.injected += 1;
        }
        hit
    }
    pub fn injected(&self) -> u32 {
        self.m.lock().unwrap().injected
    }
    pub fn forced(&self) -> u32 {
        self.m.lock().unwrap().forced
    }
    pub fn finish(&self, me: u8) {
        self.release(me, true);
    }
    pub fn switches(&self) -> u32 {
        self.m.lock().unwrap().switches
    }
}

pub fn gate_install(g: std::sync::Arc<Gate>, me: u8) {
    GATE.with(|c| *c.borrow_mut() = Some((g, me)));
}
pub fn gate_clear() {
    GATE.with(|c| *c.borrow_mut() = None);
}
/// Hooks called by the std facade the library is compiled against (sim/simstd).
pub fn install_sched_hooks() {
    fn point(_kind: &'static str) {
        SCHED_POINTS.with(|c| c.set(c.get() + 1));
        gate_yield();
    }
    fn blocked(_kind: &'static str) -> bool {
        let g = GATE.with(|c| c.borrow().clone());
        match g {
            None => false,
            Some((g, me)) => {
                crate::runner::watch_exempt();
                let r = g.yield_blocked(me);
                crate::runner::touch();
                if r.is_err() {
                    std::panic::panic_any(SimDeadlock);
                }
                true
            }
        }
    }
    fn touched(addr: usize) {
        if let Some((g, me)) = GATE.with(|c| c.borrow().clone()) {
            g.touched(me, addr);
        }
    }
    fn contended(addr: usize) -> bool {
        match GATE.with(|c| c.borrow().clone()) {
            Some((g, me)) => g.contended(me, addr),
            None => false,
        }
    }
    simstd::simhook::install(point, blocked);
    simstd::simhook::install_contention(touched, contended);
}

thread_local! {
    /// scheduling points announced by std::sync primitives on this thread (a probe)
    pub static SCHED_POINTS: std::cell::Cell<u64> = std::cell::Cell::new(0);
}

/// A scheduling point: hand the turn back and wait to be scheduled again.
fn gate_yield() {
    let g = GATE.with(|c| c.borrow().clone());
    if let Some((g, me)) = g {
        g.release(me, false);
        // the hang backstop measures the time a caller RUNS, not the time it waits for its turn
        crate::runner::watch_exempt();
        g.acquire(me);
        crate::runner::touch();
    }
}

thread_local! {
    static LAST_PANIC: RefCell<String> = RefCell::new(String::new());
    static IN_LIB: std::cell::Cell<bool> = std::cell::Cell::new(false);
}

pub fn install_panic_hook() {
    std::panic::set_hook(Box::new(|info| {
        let loc = info.location().map(|l| format!("{}:{}", l.file(), l.line())).unwrap_or_default();
        let msg = if let Some(s) = info.payload().downcast_ref::<&str>() {
            s.to_string()
        } else if let Some(s) = info.payload().downcast_ref::<String>() {
            s.clone()
        } else {
            "<non-string panic>".to_string()
        };
        if !IN_LIB.with(|f| f.get()) {
            // a panic of the harness itself: never swallow it
            eprintln!("HARNESS PANIC: {msg} @ {loc}");
        }
        LAST_PANIC.with(|p| *p.borrow_mut() = format!("{msg} @ {loc}"));
    }));
}

struct State {
    script: RngScript,
    next: usize,
    filler: Prng,
    log: RngLog,
}

fn limbs_to_be(v: &[u64; 4]) -> [u8; 32] {
    let mut o = [0u8; 32];
    for i in 0..4 {
        o[8 * i..8 * i + 8].copy_from_slice(&v[3 - i].to_be_bytes());
    }
    o
}

/// Run one library call with the simulated random source installed in both crates.
pub fn run_lib<T>(script: &RngScript, f: impl FnOnce() -> T) -> (Outcome<T>, RngLog) {
    let st = Rc::new(RefCell::new(State {
        script: script.clone(),
        next: 0,
        filler: Prng::new(script.filler ^ 0x5EED_F111_E400_0001),
        log: RngLog::default(),
    }));
    let mk_source = |st: Rc<RefCell<State>>| -> Box<dyn FnMut(&mut [u8; 32])> {
        Box::new(move |buf: &mut [u8; 32]| {
            gate_yield();
            let mut s = st.borrow_mut();
            if s.log.offered.len() >= DRAW_BUDGET {
                s.log.exceeded = true;
                drop(s);
                std::panic::panic_any(BudgetExceeded);
            }
            let c = if s.script.real {
                *buf
            } else if s.next < s.script.cands.len() {
                let c = s.script.cands[s.next];
                s.next += 1;
                c
            } else {
                s.filler.bytes32()
            };
            *buf = c;
            s.log.offered.push(c);
        })
    };
    gm_sm2::verif_hooks::set_source(mk_source(st.clone()));
    gm_sm9::verif_hooks::set_source(mk_source(st.clone()));
    {
        let st2 = st.clone();
        gm_sm2::verif_hooks::set_observer(Box::new(move |ev| {
            if let gm_sm2::verif_hooks::RngEvent::Accepted(v) = ev {
                st2.borrow_mut().log.accepted.push(limbs_to_be(&v));
            }
        }));
        let st3 = st.clone();
        gm_sm9::verif_hooks::set_observer(Box::new(move |ev| {
            if let gm_sm9::verif_hooks::RngEvent::Accepted(v) = ev {
                st3.borrow_mut().log.accepted.push(limbs_to_be(&v));
            }
        }));
    }
    IN_LIB.with(|f| f.set(true));
    let r = catch_unwind(AssertUnwindSafe(f));
    IN_LIB.with(|f| f.set(false));
    gm_sm2::verif_hooks::clear_source();
    gm_sm9::verif_hooks::clear_source();
    gm_sm2::verif_hooks::clear_observer();
    gm_sm9::verif_hooks::clear_observer();
    let log = st.borrow().log.clone();
    let out = match r {
        Ok(v) => Outcome::Done(v),
        Err(p) => {
            if p.downcast_ref::<BudgetExceeded>().is_some() || p.downcast_ref::<SimDeadlock>().is_some() {
                Outcome::Hang
            } else {
                Outcome::Panic(LAST_PANIC.with(|p| p.borrow().clone()))
            }
        }
    };
    (out, log)
}

/// Library call that is not expected to draw randomness (a benign filler is installed anyway so
/// that a refactor which adds blinding stays deterministic).
pub fn run_lib_norng<T>(f: impl FnOnce() -> T) -> Outcome<T> {
    run_lib(&RngScript { cands: vec![], filler: 0x0B5E55ED, real: false }, f).0
}
