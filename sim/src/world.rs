//! The simulated world: named byte slots (everything that travels or rests between two library
//! calls), stateful objects, the op interpreter, the fault ops, the trace digest and the
//! violation log. A schedule is a list of JSON ops; executing the same list in a fresh world is
//! the replay.

use crate::refmodel::sm3::Sm3;
use crate::simrng::{Class, RngScript};
use serde_json::{json, Value};
use std::collections::{BTreeMap, BTreeSet};

#[derive(Clone, Debug)]
pub struct Violation {
    pub property: String,
    pub oracle: String,
    pub step: usize,
    pub detail: String,
    /// (entry point, computed input class, outcome) — what a known-findings entry matches on
    pub key: Value,
}

pub type R<T> = Result<T, String>;

#[derive(Clone)]
pub struct World {
    pub slots: BTreeMap<String, Vec<u8>>,
    pub history: Vec<Value>,
    pub violations: Vec<Violation>,
    pub stats: BTreeMap<String, u64>,
    pub cases: BTreeMap<String, BTreeSet<u64>>,
    pub used_scalars: BTreeMap<Vec<u8>, usize>,
    /// in how many library calls of this world each candidate value was offered by the scripts
    pub offered_in_calls: BTreeMap<Vec<u8>, u32>,
    pub invalid: Option<String>,
    pub keep_trace: bool,
    pub trace: Vec<String>,
    pub last: Value,
    digest: Sm3,
    pub objs: crate::objs::Objs,
    pub samples: Vec<Value>,
    /// secret scalars recovered from library outputs, by group ("sm2" / "sm9"); C14 statistics
    pub observed: Vec<(String, Vec<u8>)>,
    /// this world is one caller of a `par` op whose parent world had already reported a violation
    pub pre_violated: bool,
    /// placement of the buffers handed to the library (see place.rs): (seed, calls so far)
    pub place: Option<(u64, u64)>,
    /// the world consumed real randomness (C14-M3): excluded from the run digest
    pub nondeterministic: bool,
}

pub fn fnv(parts: &[&[u8]]) -> u64 {
    let mut h: u64 = 0xcbf29ce484222325;
    for p in parts {
        for b in *p {
            h ^= *b as u64;
            h = h.wrapping_mul(0x100000001b3);
        }
        h ^= 0xff;
        h = h.wrapping_mul(0x100000001b3);
    }
    h
}

pub fn gs<'a>(op: &'a Value, f: &str) -> R<&'a str> {
    op.get(f).and_then(|v| v.as_str()).ok_or_else(|| format!("op field '{f}' missing"))
}
pub fn gs_opt<'a>(op: &'a Value, f: &str) -> Option<&'a str> {
    op.get(f).and_then(|v| v.as_str())
}
pub fn gu(op: &Value, f: &str) -> R<u64> {
    op.get(f).and_then(|v| v.as_u64()).ok_or_else(|| format!("op field '{f}' missing"))
}
pub fn gb(op: &Value, f: &str) -> bool {
    op.get(f).and_then(|v| v.as_bool()).unwrap_or(false)
}
pub fn grng(op: &Value) -> R<RngScript> {
    RngScript::from_json(op.get("rng").ok_or("op field 'rng' missing")?).ok_or_else(|| "bad rng script".to_string())
}

impl World {
    pub fn new() -> World {
        World {
            slots: BTreeMap::new(),
            history: vec![],
            violations: vec![],
            stats: BTreeMap::new(),
            cases: BTreeMap::new(),
            used_scalars: BTreeMap::new(),
            offered_in_calls: BTreeMap::new(),
            invalid: None,
            keep_trace: false,
            trace: vec![],
            last: Value::Null,
            digest: Sm3::new(),
            objs: crate::objs::Objs::default(),
            samples: vec![],
            observed: vec![],
            pre_violated: false,
            place: None,
            nondeterministic: false,
        }
    }

    /// Copy of the world for a fault branch. Stateful library objects cannot be copied, so
    /// branching is only used by byte-slot sessions.
    pub fn fork(&self) -> World {
        assert!(self.objs.is_empty(), "fork with live stateful objects");
        let mut f = self.clone();
        // what the base world already reported stays with the base world
        f.violations.clear();
        f.stats.clear();
        f.cases.clear();
        f.samples.clear();
        f
    }

    /// Placement mode of the next buffer handed to the library (None: no policy in this world).
    pub fn next_place(&mut self) -> Option<u64> {
        let (seed, n) = self.place?;
        self.place = Some((seed, n + 1));
        let mut x = seed ^ n.wrapping_mul(0x9E37_79B9_7F4A_7C15);
        x ^= x >> 29;
        x = x.wrapping_mul(0xBF58_476D_1CE4_E5B9);
        x ^= x >> 32;
        self.bump(if x & 8 != 0 { "probe.place.flush-against-guard-page" } else { "probe.place.unaligned" });
        Some(x & 15)
    }

    pub fn bump(&mut self, k: &str) {
        *self.stats.entry(k.to_string()).or_insert(0) += 1;
    }
    pub fn bump_by(&mut self, k: &str, n: u64) {
        *self.stats.entry(k.to_string()).or_insert(0) += n;
    }

    pub fn slot(&self, name: &str) -> R<Vec<u8>> {
        self.slots.get(name).cloned().ok_or_else(|| format!("slot '{name}' undefined"))
    }
    pub fn slot_of(&self, op: &Value, field: &str) -> R<Vec<u8>> {
        self.slot(gs(op, field)?)
    }
    /// Optional slot reference: field absent or null -> None
    pub fn slot_opt(&self, op: &Value, field: &str) -> R<Option<Vec<u8>>> {
        match op.get(field) {
            None | Some(Value::Null) => Ok(None),
            Some(Value::String(s)) => Ok(Some(self.slot(s)?)),
            _ => Err(format!("op field '{field}' not a slot name")),
        }
    }
    pub fn put(&mut self, name: &str, v: Vec<u8>) {
        self.slots.insert(name.to_string(), v);
    }

    pub fn note(&mut self, line: String) {
        self.digest.update(line.as_bytes());
        self.digest.update(b"\n");
        if self.keep_trace {
            self.trace.push(line);
        }
    }
    pub fn digest_hex(&self) -> String {
        hex::encode(self.digest.clone().finish())
    }

    /// Evaluate one oracle. `case` identifies the evaluated case (for the distinct-case count).
    pub fn check(&mut self, property: &str, oracle: &str, ok: bool, case: u64, key: Value, detail: impl FnOnce() -> String) {
        self.bump(&format!("oracle.{property}.{oracle}"));
        self.cases.entry(property.to_string()).or_default().insert(case);
        if !ok {
            let d = detail();
            self.note(format!("  VIOLATION {property} {oracle}: {d}"));
            self.violations.push(Violation {
                property: property.to_string(),
                oracle: oracle.to_string(),
                step: self.history.len(),
                detail: d,
                key,
            });
        }
    }

    /// Outcome-class oracle shared by every receive-side op: the call must end in Ok or Err.
    pub fn check_class(&mut self, props: &[&str], entry: &str, class: &Class, input_class: &str, case: u64, info: &str) {
        for p in props {
            let key = json!({"entry": entry, "class": input_class, "outcome": class.as_str()});
            self.check(p, "outcome-class", matches!(class, Class::Ok | Class::Err), case, key, || {
                format!("{entry} ended in {} on input class [{input_class}] {info}", class.as_str())
            });
        }
    }

    /// Record that a secret scalar was used (C14 freshness across the whole run).
    /// Register the candidates one library call was offered (once per distinct value).
    pub fn offered(&mut self, cands: &[[u8; 32]]) {
        let uniq: BTreeSet<&[u8; 32]> = cands.iter().collect();
        for c in uniq {
            *self.offered_in_calls.entry(c.to_vec()).or_insert(0) += 1;
        }
    }

    pub fn scalar_used(&mut self, what: &str, scalar: &[u8], case: u64) {
        let step = self.history.len();
        // a value the SCRIPTS offered in two different calls may legitimately be used twice
        if self.offered_in_calls.get(scalar).copied().unwrap_or(0) > 1 {
            self.bump("probe.c14.same-candidate-scripted-twice");
            return;
        }
        let prev = self.used_scalars.get(scalar).copied();
        let key = json!({"entry": what, "class": "scalar-reuse", "outcome": "Ok"});
        self.check("C14", "fresh-across-run", prev.is_none(), case, key, || {
            format!("{what}: scalar {} already used at step {}", hex::encode(scalar), prev.unwrap())
        });
        self.used_scalars.entry(scalar.to_vec()).or_insert(step);
    }

    /// Execute one op; returns its result summary. A malformed schedule marks the world invalid.
    pub fn exec(&mut self, op: Value) -> Value {
        if self.invalid.is_some() {
            return Value::Null;
        }
        let bytes: usize = self.slots.values().map(|v| v.len()).sum();
        crate::runner::set_allowance((bytes >> 21) as u64);
        crate::runner::journal(&self.history, &op);
        self.history.push(op.clone());
        let name = op.get("op").and_then(|v| v.as_str()).unwrap_or("?").to_string();
        if op.get("rng").and_then(|r| r.get("real")).and_then(|b| b.as_bool()) == Some(true) {
            self.nondeterministic = true;
        }
        self.note(format!("#{} {}", self.history.len(), op));
        self.bump(&format!("op.{name}"));
        let r = match name.as_str() {
            "set" => self.op_set(&op),
            "set.fill" => self.op_set_fill(&op),
            "place.policy" => {
                self.place = Some((gu(&op, "seed").unwrap_or(1), 0));
                self.bump("history.buffer-placement-policy");
                Ok(json!({}))
            }
            "fault" => self.op_fault(&op),
            "copy" => self.op_copy(&op),
            "world.reset" => {
                // boundary between two worlds of one run in a run-level replay: everything the
                // SIMULATION holds is dropped; whatever the LIBRARY kept in the process stays
                self.slots.clear();
                self.objs = crate::objs::Objs::default();
                self.used_scalars.clear();
                self.offered_in_calls.clear();
                self.observed.clear();
                Ok(json!({}))
            }
            "assert.eq" => self.op_assert(&op),
            "assert.last" => self.op_assert_last(&op),
            "par" => self.op_par(&op),
            n if n.starts_with("sm2.") => crate::ops_sm2::exec(self, n, &op),
            n if n.starts_with("zuc.") => crate::ops_zuc::exec(self, n, &op),
            n if n.starts_with("sm9.") => crate::ops_sm9::exec(self, n, &op),
            n if n.starts_with("entry.") => crate::ops_entry::exec(self, n, &op),
            n if n.starts_with("doc.") => crate::ops_doc::exec(self, n, &op),
            n if n.starts_with("c14.") => crate::ops_c14::exec(self, n, &op),
            _ => Err(format!("unknown op '{name}'")),
        };
        crate::runner::journal_done();
        match r {
            Ok(v) => {
                self.note(format!("  -> {v}"));
                self.last = v.clone();
                v
            }
            Err(e) => {
                // An op whose input slot was never produced because an EARLIER op already failed an
                // oracle (e.g. sign ended in hang, so there is no signature to verify) is skipped;
                // anything else that cannot be executed is a malformed schedule (harness error).
                if e.ends_with("undefined") && (!self.violations.is_empty() || self.pre_violated) {
                    self.note(format!("  SKIPPED {e}"));
                    self.bump("harness.skipped-after-violation");
                    self.last = Value::Null;
                    return Value::Null;
                }
                self.note(format!("  INVALID {e}"));
                self.invalid = Some(e);
                Value::Null
            }
        }
    }

    /// A very large input without putting it into the schedule: `len` bytes from a xorshift stream.
    fn op_set_fill(&mut self, op: &Value) -> R<Value> {
        let len = gu(op, "len")? as usize;
        let mut x = gu(op, "seed")? | 1;
        let mut b = Vec::with_capacity(len + 8);
        while b.len() < len {
            x ^= x << 13;
            x ^= x >> 7;
            x ^= x << 17;
            b.extend_from_slice(&x.to_le_bytes());
        }
        b.truncate(len);
        self.put(gs(op, "slot")?, b);
        Ok(json!({"len": len}))
    }

    fn op_set(&mut self, op: &Value) -> R<Value> {
        let b = hex::decode(gs(op, "hex")?).map_err(|e| e.to_string())?;
        self.put(gs(op, "slot")?, b);
        Ok(json!({}))
    }

    /// End-of-session oracle on slots: slot `a` must exist and equal slot `b` (or the literal
    /// `hex`). Part of the schedule, so that replays and minimised schedules re-evaluate it.
    fn op_assert(&mut self, op: &Value) -> R<Value> {
        // What must exist for the assertion to mean anything (so that a shortened schedule cannot
        // "reproduce" a round-trip failure by simply dropping the operations that made the data):
        // explicit `needs`, else for a plaintext slot X.pt the ciphertext X.ct it was decrypted from.
        let a_name = gs(op, "a")?.to_string();
        let mut needs: Vec<String> = op.get("needs").and_then(|v| v.as_array()).map(|v| v.iter().filter_map(|x| x.as_str().map(String::from)).collect()).unwrap_or_default();
        if op.get("needs").is_none() {
            if let Some(pfx) = a_name.strip_suffix(".pt") {
                needs.push(format!("{pfx}.ct"));
            }
        }
        if let Some(b) = gs_opt(op, "b") {
            needs.push(b.to_string());
        }
        for n in &needs {
            if !self.slots.contains_key(n) {
                return Err(format!("slot '{n}' undefined"));
            }
        }
        let a = self.slots.get(&a_name).cloned();
        let b = match gs_opt(op, "hex") {
            Some(h) => Some(hex::decode(h).map_err(|e| e.to_string())?),
            None => self.slots.get(gs(op, "b")?).cloned(),
        };
        let property = gs(op, "property")?.to_string();
        let oracle = gs(op, "oracle")?.to_string();
        let what = gs_opt(op, "what").unwrap_or("").to_string();
        let case = fnv(&[b"assert", op.to_string().as_bytes(), &a.clone().unwrap_or_default(), &b.clone().unwrap_or_default()]);
        let key = json!({"entry": gs_opt(op, "entry").unwrap_or("session"), "class": gs_opt(op, "class").unwrap_or("any"), "outcome": "Ok"});
        let ok = a.is_some() && a == b;
        self.check(&property, &oracle, ok, case, key, || {
            format!("{what}: got {} want {}", a.as_ref().map(hex::encode).unwrap_or("<nothing>".into()), b.as_ref().map(hex::encode).unwrap_or("<nothing>".into()))
        });
        Ok(json!({"ok": ok}))
    }

    /// Two ops executed by two caller threads, interleaved deterministically at the RNG seam (see
    /// simrng::Gate). Each runs on its own copy of the slots; what they produced is merged back.
    fn op_par(&mut self, op: &Value) -> R<Value> {
        // two callers: fields `a`, `b`; more (up to 26): field `ops`. Order letters: A = first caller ...
        let ops: Vec<Value> = match op.get("ops").and_then(|v| v.as_array()) {
            Some(v) => v.clone(),
            None => vec![op.get("a").cloned().ok_or("par: field 'a' missing")?, op.get("b").cloned().ok_or("par: field 'b' missing")?],
        };
        let n = ops.len();
        if !(2..=26).contains(&n) {
            return Err("par: 2..=26 callers".into());
        }
        let order: Vec<u8> = gs(op, "order")?.bytes().filter(|c| c.is_ascii_uppercase()).map(|c| c - b'A').collect();
        let gate = crate::simrng::Gate::new_n(&order, n);
        // stateful objects go with the caller that names them; no object may be named by two callers
        fn names(v: &Value, out: &mut std::collections::BTreeSet<String>) {
            match v {
                Value::String(s) => {
                    out.insert(s.clone());
                }
                Value::Array(a) => a.iter().for_each(|x| names(x, out)),
                Value::Object(m) => m.values().for_each(|x| names(x, out)),
                _ => {}
            }
        }
        let named: Vec<std::collections::BTreeSet<String>> = ops
            .iter()
            .map(|o| {
                let mut s = Default::default();
                names(o, &mut s);
                s
            })
            .collect();
        let mut objs = std::mem::take(&mut self.objs);
        let mut per: Vec<crate::objs::Objs> = (0..n).map(|_| crate::objs::Objs::default()).collect();
        let owners = |k: &String| -> Vec<usize> { (0..n).filter(|i| named[*i].contains(k)).collect() };
        for k in objs.kex.keys().cloned().collect::<Vec<_>>() {
            let o = owners(&k);
            if o.len() > 1 {
                self.objs = objs;
                return Err(format!("par: several callers name object '{k}'"));
            }
            if let Some(i) = o.first() {
                per[*i].kex.insert(k.clone(), objs.kex.remove(&k).unwrap());
            }
        }
        for k in objs.zuc.keys().cloned().collect::<Vec<_>>() {
            let o = owners(&k);
            if o.len() > 1 {
                self.objs = objs;
                return Err(format!("par: several callers name object '{k}'"));
            }
            if let Some(i) = o.first() {
                per[*i].zuc.insert(k.clone(), objs.zuc.remove(&k).unwrap());
            }
        }
        let pre = !self.violations.is_empty() || self.pre_violated;
        let mut worlds: Vec<World> = (0..n).map(|_| self.fork()).collect();
        self.objs = objs;
        for (w, o) in worlds.iter_mut().zip(per) {
            w.objs = o;
            w.pre_violated = pre;
        }
        let my_run = crate::runner::current_run();
        let run = |mut w: World, o: Value, me: u8, g: std::sync::Arc<crate::simrng::Gate>| {
            std::thread::Builder::new()
                .stack_size(64 << 20)
                .spawn(move || {
                    crate::runner::set_current_run(my_run);
                    crate::simrng::gate_install(g.clone(), me);
                    g.acquire(me);
                    let r = std::panic::catch_unwind(std::panic::AssertUnwindSafe(|| w.exec(o)));
                    crate::simrng::gate_clear();
                    g.finish(me);
                    let pts = crate::simrng::SCHED_POINTS.with(|c| c.get());
                    w.bump_by("probe.par.sync-primitive-points", pts);
                    match r {
                        Ok(r) => (w, r),
                        Err(_) => {
                            eprintln!("HARNESS PANIC inside a par thread");
                            std::process::exit(101)
                        }
                    }
                })
                .map_err(|e| e.to_string())
        };
        let mut handles = vec![];
        for (i, (w, o)) in worlds.into_iter().zip(ops.iter().cloned()).enumerate() {
            handles.push(run(w, o, i as u8, gate.clone())?);
        }
        // the callers are watched one by one (each while it runs); this thread only waits for them
        crate::runner::watch_exempt();
        let mut done: Vec<(World, Value)> = vec![];
        for h in handles {
            done.push(h.join().map_err(|_| "par: a caller thread panicked".to_string())?);
        }
        let step = self.history.len();
        let observed_before = self.observed.len();
        let mut par_seen: std::collections::BTreeSet<(String, Vec<u8>)> = Default::default();
        let mut results = vec![];
        for (mut w, r) in done {
            results.push(r);
            if w.nondeterministic {
                self.nondeterministic = true;
            }
            self.objs.kex.append(&mut w.objs.kex);
            self.objs.zuc.append(&mut w.objs.zuc);
            if let Some(e) = w.invalid {
                return Err(format!("par: inner op invalid: {e}"));
            }
            for (k, v) in w.slots {
                if self.slots.get(&k) != Some(&v) {
                    self.slots.insert(k, v);
                }
            }
            for mut v in w.violations {
                v.step = step;
                self.violations.push(v);
            }
            for (k, v) in w.stats {
                if !k.starts_with("op.") {
                    self.bump_by(&k, v);
                }
            }
            for (p, set) in w.cases {
                self.cases.entry(p).or_default().extend(set);
            }
            for (k, n) in w.offered_in_calls {
                *self.offered_in_calls.entry(k).or_insert(0) += n;
            }
            for (k, st) in w.used_scalars {
                let prev = self.used_scalars.get(&k).copied();
                if prev.is_some() && self.offered_in_calls.get(&k).copied().unwrap_or(0) <= 1 {
                    let key = json!({"entry": "par", "class": "scalar-reuse", "outcome": "Ok"});
                    self.check("C14", "fresh-across-run", false, fnv(&[b"par-dup", &k]), key, || format!("concurrent calls used the same scalar {}", hex::encode(&k)));
                }
                self.used_scalars.entry(k).or_insert(st);
            }
            // scalars the REAL generator produced for the callers must differ as well
            // (a fork starts with the parent's list: only what this caller added counts)
            let added: Vec<(String, Vec<u8>)> = w.observed.split_off(observed_before.min(w.observed.len()));
            for (g, v) in &added {
                if par_seen.contains(&(g.clone(), v.clone())) {
                    let key = json!({"entry": "par", "class": "scalar-repeats-across-callers", "outcome": "Ok"});
                    self.check("C14", "M3-callers-fresh", false, fnv(&[b"par-real-dup", v]), key, || format!("two concurrent callers obtained the same {g} scalar {} from the real generator", hex::encode(v)));
                }
            }
            par_seen.extend(added.iter().cloned());
            self.observed.extend(added);
        }
        self.bump("history.concurrent-callers");
        if n > 2 {
            self.bump("history.concurrent-callers-more-than-two");
        }
        // measure of reach: distinct (operations, interleaving that took place)
        let opn = |v: &Value| v.get("op").and_then(|o| o.as_str()).unwrap_or("").to_string();
        let names_cat: String = ops.iter().map(opn).collect::<Vec<_>>().join("|");
        let il = fnv(&[names_cat.as_bytes(), &gate.trace()]);
        self.cases.entry("interleavings".into()).or_default().insert(il);
        self.bump_by("probe.par.thread-switches", gate.switches() as u64);
        self.bump_by("probe.par.forced-handover", gate.forced() as u64);
        self.bump_by("probe.par.try-lock-found-taken", gate.injected() as u64);
        if n == 2 {
            Ok(json!({"a": results[0], "b": results[1], "switches": gate.switches()}))
        } else {
            Ok(json!({"results": results, "switches": gate.switches()}))
        }
    }

    /// Oracle on the result summary of the previous op (e.g. a corpus item must have been accepted).
    fn op_assert_last(&mut self, op: &Value) -> R<Value> {
        let field = gs(op, "field")?;
        let want = gs(op, "equals")?;
        let got = self.last.get(field).and_then(|v| v.as_str()).unwrap_or("<none>").to_string();
        let property = gs(op, "property")?.to_string();
        let oracle = gs(op, "oracle")?.to_string();
        let what = gs_opt(op, "what").unwrap_or("").to_string();
        let case = fnv(&[b"assert.last", op.to_string().as_bytes(), self.last.to_string().as_bytes()]);
        let key = json!({"entry": gs_opt(op, "entry").unwrap_or("session"), "class": gs_opt(op, "class").unwrap_or("any"), "outcome": got});
        let ok = got == want;
        let keep = self.last.clone();
        self.check(&property, &oracle, ok, case, key, || format!("{what}: previous op ended with {field}={got}, expected {want}"));
        // transparent for the next assert
        Ok(keep)
    }

    /// A party keeps its own copy of something it received (storage slot).
    fn op_copy(&mut self, op: &Value) -> R<Value> {
        let v = self.slot(gs(op, "from")?)?;
        self.put(gs(op, "to")?, v);
        Ok(json!({}))
    }

    /// Transport / storage faults on a slot.
    fn op_fault(&mut self, op: &Value) -> R<Value> {
        let slot = gs(op, "slot")?.to_string();
        let kind = gs(op, "kind")?;
        let mut v = self.slot(&slot)?;
        let before = v.clone();
        match kind {
            "flip" => {
                let bit = gu(op, "bit")? as usize;
                if bit / 8 >= v.len() {
                    return Err("flip beyond end".into());
                }
                v[bit / 8] ^= 0x80 >> (bit % 8);
            }
            "truncate" => {
                let len = gu(op, "len")? as usize;
                if len > v.len() {
                    return Err("truncate beyond end".into());
                }
                v.truncate(len);
            }
            "extend" => v.extend_from_slice(&hex::decode(gs(op, "hex")?).map_err(|e| e.to_string())?),
            "prepend" => {
                let mut n = hex::decode(gs(op, "hex")?).map_err(|e| e.to_string())?;
                n.extend_from_slice(&v);
                v = n;
            }
            "setbyte" => {
                let pos = gu(op, "pos")? as usize;
                if pos >= v.len() {
                    return Err("setbyte beyond end".into());
                }
                v[pos] = gu(op, "val")? as u8;
            }
            "xorbyte" => {
                let pos = gu(op, "pos")? as usize;
                if pos >= v.len() {
                    return Err("xorbyte beyond end".into());
                }
                v[pos] ^= gu(op, "val")? as u8;
            }
            "xorpair" => {
                // the same mask XORed into two different bytes (differences that cancel under a
                // folded comparison)
                let (p1, p2) = (gu(op, "pos1")? as usize, gu(op, "pos2")? as usize);
                if p1 >= v.len() || p2 >= v.len() || p1 == p2 {
                    return Err("xorpair beyond end".into());
                }
                let m = gu(op, "val")? as u8;
                v[p1] ^= m;
                v[p2] ^= m;
            }
            "splice" => {
                // overwrite bytes at `pos` with `hex` (must fit)
                let pos = gu(op, "pos")? as usize;
                let n = hex::decode(gs(op, "hex")?).map_err(|e| e.to_string())?;
                if pos + n.len() > v.len() {
                    return Err("splice beyond end".into());
                }
                v[pos..pos + n.len()].copy_from_slice(&n);
            }
            "replace" => v = hex::decode(gs(op, "hex")?).map_err(|e| e.to_string())?,
            "copy" => v = self.slot(gs(op, "from")?)?,
            "swap_halves" => {
                let h = v.len() / 2;
                v.rotate_left(h);
            }
            _ => return Err(format!("unknown fault kind '{kind}'")),
        }
        let fired = v != before;
        if fired {
            self.bump(&format!("fault.{kind}"));
        } else {
            self.bump(&format!("fault-noop.{kind}"));
        }
        self.put(&slot, v);
        Ok(json!({"fired": fired}))
    }
}
