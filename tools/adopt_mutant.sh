#!/bin/bash
# tools/adopt_mutant.sh <name> <src out dir> <property> <crate> <demo test name> "<needs>" [rustflags]
set -eu
NAME="$1"; SRC="$2"; PROP="$3"; CRATE="$4"; TEST="$5"; NEEDS="$6"; FLAGS="${7:-}"
D=/verif/seeded/$NAME; mkdir -p $D
cp "$SRC/patch.diff" $D/patch.diff; cp "$SRC/demo.rs" $D/demo.rs; cp "$SRC/README.md" $D/NOTES.md 2>/dev/null || true
python3 - "$D" "$PROP" "$CRATE" "$TEST" "$NEEDS" "$FLAGS" <<'PY'
import json,sys
d,prop,crate,test,needs,flags=sys.argv[1:7]
json.dump({"breaks_property":prop,"needs_to_manifest":needs,
 "demonstration":{"file":"demo.rs","place_at":f"{crate}/tests/{test}.rs","run":(("RUSTFLAGS='"+flags+"' ") if flags else "")+f"CARGO_NET_OFFLINE=true cargo test -p {crate} --offline --test {test}"},
 "confirmed":"tools/confirm_mutant.sh in a scratch worktree: patch applies on the fix-commit HEAD, 41 lib tests pass with it, demonstration fails with it and passes without it",
 "checks_run":{}},open(d+"/meta.json","w"),indent=1)
PY
echo adopted $D
