#!/bin/bash
# tools/confirm_mutant.sh <worktree> <patch.diff> <crate> <test-name>
# Confirms in the scratch worktree: patch applies; 41 lib tests pass with it; demo fails with it; demo passes without it.
set -u
WT="$1"; PATCH="$2"; CRATE="$3"; TESTNAME="$4"; FLAGS="${5:-}"
cd "$WT" || exit 2
export CARGO_NET_OFFLINE=true
git checkout -q -- . 
git apply --check "$PATCH" || { echo "CONFIRM: patch does not apply"; exit 1; }
git apply "$PATCH"
lib=$(cargo test --workspace --offline --lib --target-dir "$WT/target" 2>&1 | grep -E "^test result" | awk '{p+=$4; f+=$6} END {print p" passed "f" failed"}')
echo "CONFIRM with patch: lib tests: $lib"
RUSTFLAGS="$FLAGS" cargo test -p "$CRATE" --offline --test "$TESTNAME" --target-dir "$WT/target_demo" > /tmp/confirm_with.txt 2>&1; rcw=$?
echo "CONFIRM with patch: demo rc=$rcw $(grep -E '^test result' /tmp/confirm_with.txt | head -1)"
git checkout -q -- .
RUSTFLAGS="$FLAGS" cargo test -p "$CRATE" --offline --test "$TESTNAME" --target-dir "$WT/target_demo" > /tmp/confirm_without.txt 2>&1; rco=$?
echo "CONFIRM without patch: demo rc=$rco $(grep -E '^test result' /tmp/confirm_without.txt | head -1)"
if [ "$lib" = "41 passed 0 failed" ] && [ $rcw -ne 0 ] && [ $rco -eq 0 ]; then echo "CONFIRMED"; else echo "NOT CONFIRMED"; exit 1; fi
