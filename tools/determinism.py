#!/usr/bin/env python3
"""Determinism proof: for many VERIF_SEED values, the run digest of every check must be identical
across fresh processes and worker counts {1, 5, 16} (and serial execution).
usage: determinism.py [seeds] [props...]   -> writes /verif/evidence/determinism.json, exit 1 on any divergence"""
import subprocess, sys, os, json, time
BIN = "/verif/sim/target/release/gmsim"
# runs per batch; 0 = the whole quick batch (needed to reach the two-caller / isolated / long-history runs,
# which sit at the end of a batch)
LIGHT = {"C03": 0, "C04": 3, "C05": 0, "C06": 3, "C08": 0, "C15": 0, "C19": 700, "C20": 0, "C14": 300}
HEAVY = {"C09": 0, "C10": 0, "C17": 0}
def digest(prop, seed, threads, runs, serial=False):
    env = dict(os.environ, VERIF_SEED=str(seed), GMSIM_WORKERS=str(threads), GMSIM_VERIF_DIR="/verif")
    cmd = [BIN, "digest", prop, "quick"] + (["--runs", str(runs)] if runs else []) + (["--serial"] if serial else [])
    out = subprocess.run(cmd, env=env, capture_output=True, text=True)
    if out.returncode != 0:
        raise SystemExit(f"digest failed: {cmd} {out.stderr}")
    return out.stdout.split()[0]
def main():
    nseeds = int(sys.argv[1]) if len(sys.argv) > 1 else 64
    props = sys.argv[2:] or list(LIGHT) + list(HEAVY)
    t0 = time.time(); rows = []; bad = 0
    for prop in props:
        runs = LIGHT.get(prop, 0) if prop in LIGHT else HEAVY.get(prop, 0)
        ns = nseeds if prop in LIGHT else max(2, nseeds // 4)
        for seed in range(1, ns + 1):
            ds = [digest(prop, seed, 16, runs), digest(prop, seed, 16, runs), digest(prop, seed, 5, runs), digest(prop, seed, 1, runs, serial=True)]
            ok = len(set(ds)) == 1
            bad += not ok
            rows.append({"property": prop, "seed": seed, "runs": runs, "digest": ds[0], "identical": ok})
            if not ok:
                print("DIVERGENCE", prop, seed, ds)
        print(prop, "ok" if not bad else "DIVERGED", f"{ns} seeds x 4 executions (16,16,5 workers; serial), runs={runs}", flush=True)
    json.dump({"seeds_per_light_property": nseeds, "executions_per_seed": 4, "worker_counts": [16, 16, 5, "serial (all runs in one process, no worker processes)"], "note": "workers are processes; isolated runs get a process of their own in the parallel executions and share the one process in the serial execution",
               "divergences": bad, "wall_s": round(time.time() - t0, 1), "rows": rows}, open("/verif/evidence/determinism.json", "w"), indent=0)
    sys.exit(1 if bad else 0)
main()
