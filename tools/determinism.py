#!/usr/bin/env python3
"""Determinism proof: for many VERIF_SEED values, the run digest of every check must be identical
across fresh processes and worker counts {1, 5, 16} (and serial execution).
usage: determinism.py [seeds] [props...]   -> writes /verif/evidence/determinism.json, exit 1 on any divergence"""
import subprocess, sys, os, json, time
BIN = "/verif/sim/target/release/gmsim"
LIGHT = {"C03": 40, "C04": 3, "C05": 40, "C06": 3, "C08": 40, "C15": 120, "C19": 700, "C20": 40, "C14": 120}
HEAVY = {"C09": 160, "C10": 310, "C17": 70}
def digest(prop, seed, threads, runs, serial=False):
    env = dict(os.environ, VERIF_SEED=str(seed), RAYON_NUM_THREADS=str(threads))
    cmd = [BIN, "digest", prop, "quick", "--runs", str(runs)] + (["--serial"] if serial else [])
    out = subprocess.run(cmd, env=env, capture_output=True, text=True)
    if out.returncode != 0:
        raise SystemExit(f"digest failed: {cmd} {out.stderr}")
    return out.stdout.split()[0]
def main():
    nseeds = int(sys.argv[1]) if len(sys.argv) > 1 else 64
    props = sys.argv[2:] or list(LIGHT) + list(HEAVY)
    t0 = time.time(); rows = []; bad = 0
    for prop in props:
        runs = LIGHT.get(prop) or HEAVY.get(prop)
        ns = nseeds if prop in LIGHT else max(4, nseeds // 8)
        for seed in range(1, ns + 1):
            ds = [digest(prop, seed, 16, runs), digest(prop, seed, 16, runs), digest(prop, seed, 5, runs), digest(prop, seed, 1, runs, serial=True)]
            ok = len(set(ds)) == 1
            bad += not ok
            rows.append({"property": prop, "seed": seed, "runs": runs, "digest": ds[0], "identical": ok})
            if not ok:
                print("DIVERGENCE", prop, seed, ds)
        print(prop, "ok" if not bad else "DIVERGED", f"{ns} seeds x 4 executions (16,16,5 workers; serial), runs={runs}", flush=True)
    json.dump({"seeds_per_light_property": nseeds, "executions_per_seed": 4, "worker_counts": [16, 16, 5, "serial"],
               "divergences": bad, "wall_s": round(time.time() - t0, 1), "rows": rows}, open("/verif/evidence/determinism.json", "w"), indent=0)
    sys.exit(1 if bad else 0)
main()
