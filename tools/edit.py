#!/usr/bin/env python3
"""Line-ending-preserving exact-substring editor for /repo (its files mix CRLF and LF).
usage: edit.py FILE  <<< JSON [[old,new],...]   (old/new written with \n; converted to the file's convention)"""
import sys, json
def edit(path, subs):
    s = open(path, 'rb').read()
    crlf = b'\r\n' in s
    for a, b in subs:
        a = a.encode(); b = b.encode()
        if crlf:
            a = a.replace(b'\n', b'\r\n'); b = b.replace(b'\n', b'\r\n')
        assert s.count(a) == 1, (path, a, s.count(a))
        s = s.replace(a, b)
    open(path, 'wb').write(s)
if __name__ == '__main__':
    edit(sys.argv[1], json.load(sys.stdin))
