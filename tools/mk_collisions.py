#!/usr/bin/env python3
"""Identity pairs that collide under common 32-bit (and weaker) string hashes.
A table keyed by such a digest of an identity (instead of the identity) confuses exactly these
pairs and no others, so random identities never reveal it. Deterministic birthday search over
lower-case words; output corpus/id_collisions.json. Run once at development time."""
import json, zlib, itertools, sys

def fnv1a32(b):
    h = 0x811c9dc5
    for c in b: h = ((h ^ c) * 0x01000193) & 0xffffffff
    return h
def fnv1_32(b):
    h = 0x811c9dc5
    for c in b: h = ((h * 0x01000193) & 0xffffffff) ^ c
    return h
def crc32(b): return zlib.crc32(b) & 0xffffffff
def adler32(b): return zlib.adler32(b) & 0xffffffff
def java31(b):
    h = 0
    for c in b: h = (h * 31 + c) & 0xffffffff
    return h
def djb2(b):
    h = 5381
    for c in b: h = (h * 33 + c) & 0xffffffff
    return h
def djb2x(b):
    h = 5381
    for c in b: h = ((h * 33) ^ c) & 0xffffffff
    return h
def sdbm(b):
    h = 0
    for c in b: h = (c + (h << 6) + (h << 16) - h) & 0xffffffff
    return h
def murmur3_32(b, seed=0):
    c1, c2 = 0xcc9e2d51, 0x1b873593
    h = seed
    n = len(b) // 4
    rol = lambda x, r: ((x << r) | (x >> (32 - r))) & 0xffffffff
    for i in range(n):
        k = int.from_bytes(b[4*i:4*i+4], 'little')
        k = (k * c1) & 0xffffffff; k = rol(k, 15); k = (k * c2) & 0xffffffff
        h ^= k; h = rol(h, 13); h = (h * 5 + 0xe6546b64) & 0xffffffff
    t = b[4*n:]
    k = 0
    if len(t) >= 3: k ^= t[2] << 16
    if len(t) >= 2: k ^= t[1] << 8
    if len(t) >= 1:
        k ^= t[0]; k = (k * c1) & 0xffffffff; k = rol(k, 15); k = (k * c2) & 0xffffffff; h ^= k
    h ^= len(b)
    h ^= h >> 16; h = (h * 0x85ebca6b) & 0xffffffff; h ^= h >> 13; h = (h * 0xc2b2ae35) & 0xffffffff; h ^= h >> 16
    return h
def fnv1a64_fold32(b):
    h = 0xcbf29ce484222325
    for c in b: h = ((h ^ c) * 0x100000001b3) & 0xffffffffffffffff
    return (h ^ (h >> 32)) & 0xffffffff
def fnv1a64_low32(b):
    h = 0xcbf29ce484222325
    for c in b: h = ((h ^ c) * 0x100000001b3) & 0xffffffffffffffff
    return h & 0xffffffff
def sm3_first4(b):
    return None  # filled by the simulator side if ever needed

HASHES = {"fnv1a32": fnv1a32, "fnv1_32": fnv1_32, "crc32": crc32, "java31": java31, "djb2": djb2, "djb2xor": djb2x,
          "sdbm": sdbm, "murmur3_32_seed0": murmur3_32, "fnv1a64_fold32": fnv1a64_fold32, "fnv1a64_low32": fnv1a64_low32, "adler32": adler32}

def words():
    # deterministic stream of plausible identities: name + number, e-mail like
    al = "abcdefghijklmnopqrstuvwxyz"
    for n in itertools.count(0):
        x = n
        s = ""
        for _ in range(6):
            s += al[x % 26]; x //= 26
        yield (s + "@example.org").encode() if n % 2 else (s + str(x)).encode()

out = {}
for name, f in HASHES.items():
    seen = {}
    pairs = []
    for i, wd in enumerate(words()):
        h = f(wd)
        if h in seen and seen[h] != wd:
            pairs.append([seen[h].decode(), wd.decode()])
            if len(pairs) >= 3: break
        seen[h] = wd
        if i > 1_500_000: break
    out[name] = pairs
    print(name, pairs, file=sys.stderr)
# classics and structural relations (weak digests: sum, xor, length, prefix/suffix windows)
out["fnv1a32"].insert(0, ["costarring", "liquid"])
out["crc32"].insert(0, ["plumless", "buckeroo"])
out["java31"].insert(0, ["Aa", "BB"])
out["byte_sum"] = [["ab", "ba"], ["Alice1", "Alicd2"]]
out["byte_xor"] = [["abab", "cdcd"], ["aa", "bb"]]
out["first_8_bytes"] = [["identity-A", "identity-B"]]
out["last_8_bytes"] = [["A@example.org", "B@example.org"]]
out["first_32_bytes"] = [["0123456789abcdef0123456789abcdef-A", "0123456789abcdef0123456789abcdef-B"]]
out["first_64_bytes"] = [["0123456789abcdef" * 4 + "-A", "0123456789abcdef" * 4 + "-B"]]
out["case_folded"] = [["Alice", "alice"], ["BOB@EXAMPLE.ORG", "bob@example.org"]]
out["trimmed"] = [["Alice", " Alice"], ["Alice", "Alice "], ["Alice", "Alice\n"]]
out["c_string"] = [["Alice", "Alice\u0000Bob"]]
# truncated std::collections::hash_map::DefaultHasher (fixed-key SipHash-1-3), found by the simulator binary
import subprocess
try:
    extra = json.loads(subprocess.run(["/verif/sim/target/release/gmsim", "dev-collisions"], capture_output=True, text=True, check=True).stdout)
    out.update(extra)
except Exception as e:
    print("no siphash pairs:", e, file=sys.stderr)
for k, v in out.items():
    f = HASHES.get(k)
    if f:
        for a, b in v:
            assert a != b and f(a.encode()) == f(b.encode()), (k, a, b)
json.dump(out, open("/verif/corpus/id_collisions.json", "w"), indent=1)
print(sum(len(v) for v in out.values()), "pairs")
