#!/usr/bin/env python3
"""Writes /verif/MANIFEST.json from the table below (single source of truth for the interface)."""
import json, subprocess, os
HERE = os.path.dirname(os.path.dirname(os.path.abspath(__file__)))

HIST = (" Histories are part of every schedule: faulted deliveries are preceded and followed by the genuine one, sessions reuse keys/objects, "
        "each run executes in a fresh thread of a worker process and a violation that needs state from earlier operations is replayed as the whole run "
        "(or as everything its worker process executed before it). Where two library calls are made by two simulated caller threads (`par` op), "
        "control passes between them only at RNG draws and at std::sync primitives (std facade sim/simstd), in an order that is part of the schedule. "
        "The thorough tier adds a Miri stage (miri/): two caller threads per scenario under Miri's seeded scheduler and data-race detector. "
        "Buffers are handed to the library unaligned or flush against an unmapped page in part of the runs (place.policy); a try_lock on a lock another simulated caller uses may find it taken; the crates are built with overflow-checks = true.")

TRUST = ("Trusted base: the reference models in sim/src/refmodel (validated before every check against the standards' "
         "published examples; exit 2 if a self-test fails), the simulator itself, and sampling of keys/IDs/messages/nonces "
         "from seeded classes. Tamper oracles consult the reference on the delivered bytes instead of assuming a modification is invalid.")

CHECKS = {
 "C03": ("exploration", "6/C03",
  "Seeded simulation of interleaved SM2 signature sessions in which the library and an independent reference signer/verifier play either side; the nonce is owned by the simulator through the RNG seam, so each library signature is compared byte-for-byte with the GB/T 32918.2 value for the nonce actually used (incl. the GM/T 0003.5 Annex A example), judged by the reference verifier, and reference-made signatures must be accepted. Sampling over (d, ID, message, k) classes: exploration is the honest level.",
  "deterministic simulation: seeded multi-session schedules, scripted nonce via RNG seam, differential against reference peer"),
 "C04": ("fault_enumeration", "6/C04",
  "For each seeded sample the whole fault menu (512 bit flips, every length 0..=130, range/algebraic substitutions, message/ID/key faults, misdelivery) is enumerated on the signature in transit and delivered to the library; it must answer Ok or Err, and Ok only where the strict reference verifier accepts the delivered tuple. Exhaustive over the menu per sample, sampled over samples.",
  "deterministic simulation: transport-fault enumeration per seeded sample, reference verifier as judge"),
 "C05": ("exploration", "6/C05",
  "Seeded simulation of SM2 encryption sessions over 2 orders x 2 C1 forms with library or reference as encryptor and both as decryptors; every length 1..=300 is covered per batch; the ephemeral scalar is scripted through the RNG seam so ciphertext bytes are compared exactly with GB/T 32918.4 (Annex A example; rare nonce whose KDF output is zero forces the retry branch).",
  "deterministic simulation: seeded sessions, scripted ephemeral scalar via RNG seam, differential against reference peer"),
 "C06": ("fault_enumeration", "6/C06",
  "For each seeded sample ciphertext (4 configurations) every single-bit flip, every truncation, extensions, C1 substitutions (other points, every prefix byte, off-curve, zero, p, non-residue) and crafted victim-consistent invalid-curve / coordinate>=p ciphertexts are delivered to the library's decrypt; it must answer Ok or Err and may return a plaintext only where the strict reference decryptor returns the same one.",
  "deterministic simulation: transport-fault enumeration incl. adversarially crafted ciphertexts, reference decryptor as judge"),
 "C09": ("fault_enumeration", "6/C09",
  "SM9 signature sessions with KGC/signer/verifier played by the library or the reference (r scripted through the RNG seam: exact (h,S) comparison with GM/T 0044.2 and the Annex A example; reference-made signatures must verify), then per seeded sample the fault menu on (h,S), message, identity and master public key is enumerated and delivered to verify_sign, which must answer Ok or Err and Ok only where the strict reference verifier accepts.",
  "deterministic simulation: multi-party sessions with reference peers, scripted r via RNG seam, transport-fault enumeration judged by the reference verifier"),
 "C10": ("fault_enumeration", "6/C10",
  "SM9 encryption sessions covering every length 1..=255 with library or reference encryptor (r scripted: exact ciphertext comparison with GM/T 0044.4, Annex A example, scripted r with K1 = 0 forcing the retry branch), then per seeded sample every bit flip, truncation, extension, identity change, C1 substitution and crafted victim-consistent off-curve C1 is delivered to decrypt, which must answer Ok or Err and return a plaintext only where the strict reference decryptor returns the same one.",
  "deterministic simulation: multi-party sessions with reference peers, scripted r via RNG seam, transport-fault enumeration incl. adversarially crafted ciphertexts"),
 "C14": ("fault_enumeration", "6/C14",
  "All 11 randomised call sites of gm-sm2 and gm-sm9 run behind the RNG seam. Enumerated per site: each out-of-range candidate of the menu offered first (and doubled, and eight in a row for the draw budget), each in-range edge candidate; seeded M1 runs of several calls per world. The scalar actually used is recovered from each call's output by the reference (algebraically for SM2 signatures, by matching C1/R/(h,S) otherwise) and must have been offered in that very call, lie in [1, order-1] and never repeat. M3 (labelled non-replayable) observes the real generator through the seam: per-bit frequency against the exact uniform expectation at 8 sigma, duplicates, and three fresh processes that must not share a scalar.",
  "deterministic simulation: RNG-fault enumeration at the random-source seam, scalar recovery by the reference, plus observed real source with restart"),
 "C15": ("fault_enumeration", "6/C15",
  "The four-message SM2 key agreement between parties played by the library or the reference: honest runs with scripted ephemeral scalars (R, S_B, S_A, K compared exactly with GB/T 32918.3 incl. the Annex A example; mixed pairs must complete), then all 16 subsets of the four messages x 3 tamper kinds plus faults on the responder's stored R_A per sample; each library step is judged by the reference party in the same position on the same delivered bytes.",
  "deterministic simulation: two-party protocol histories, scripted ephemeral scalars, tamper-subset enumeration against a reference party"),
 "C17": ("fault_enumeration", "6/C17",
  "SM9 key exchange between initiator and responder played by the library or the reference (scripted r_A, r_B: R_A and SK compared exactly with GM/T 0044.3 incl. the Annex A SK; mixed pairs agree), then per seeded sample faults on R_A / R_B in transit (bit flips, other valid point, zero, off-curve, p): an invalid point must be refused and a modified one must make the keys differ.",
  "deterministic simulation: two-party protocol histories, scripted ephemeral scalars, transport-fault enumeration"),
 "C08": ("exploration", "6/C08",
  "Request histories on stateful ZUC generators: every composition of totals 1..=12 (and each with a zero-length request at every position) for four (key, iv) pairs exhaustively, plus seeded runs of 1-4 interleaved generators with per-run request-size laws and streams up to 2^16 (quick) / 2^20 (thorough) words, each request compared with the reference keystream vector at that generator's cursor.",
  "deterministic simulation: seeded and exhaustive small request histories on stateful objects against a whole-vector reference model"),
 "C19": ("fault_enumeration", "6/C19",
  "Key documents cross program boundaries inside the simulation: every encoding (SEC1, hex, SPKI DER/PEM; private bytes, hex, PKCS#8 DER/PEM, SEC1 DER) is written by the library or the reference and read by the library, the committed OpenSSL corpus must decode / decrypt / verify, GM/T 0009 ASN.1 ciphertexts are produced with ephemeral scalars chosen through the RNG seam from a committed rare-event table (coordinates with leading/trailing zero bytes, top bits) and compared with the reference DER, and every stored document takes the storage-fault menu (bit flips or character substitutions, 00/FF, truncation, extension, semantic substitutions): a decoder must answer Ok or Err and Ok only for a valid curve point / the d the document holds. The round-trip clauses are sampled; the seam-chosen ephemeral point and the stored-byte faults are what simulation adds.",
  "deterministic simulation: stored-document fault enumeration, RNG-seam rare-event scripts, writer/reader parties incl. reference and OpenSSL corpus"),
 "C20": ("fault_enumeration", "6/C20",
  "Every receive-side entry point is called under panic capture, the RNG draw budget and a wall-clock watchdog on every length 0..=200 of zero/FF/seeded content and on every truncation, extension and single-byte corruption of a valid encoding; boundary private keys that a constructor accepts must let sign and encrypt terminate. Exhaustive over the stated menus per entry point; the outcome class must be Ok or Err.",
  "deterministic simulation: input-fault enumeration at every entry point with panic capture, draw-budget liveness and watchdog"),
}

NOT_APPLICABLE = {
 "C01": "SM3 is a pure function of one byte string (no RNG, state, fault or peer in the statement); nothing for a scheduler or fault injector to decide. Executed inside every session and recomputed by the reference, but not claimed.",
 "C02": "Single-block SM4 is a pure function of (key, block); the immutability clause is discharged by the type system (&self, no interior mutability, no unsafe, no statics), not by any schedule.",
 "C07": "Sm4CipherMode::{encrypt,decrypt}(&self, data, iv) are one-shot pure functions: no streaming/chunk API, no RNG, no state. (Their crash behaviour on malformed input is exercised under C20.)",
 "C11": "Pure SM2 field/curve arithmetic on values; no randomness, history, fault or second party in the statement.",
 "C12": "The SM9 pairing is a pure function of (P, Q); bilinearity is an algebraic identity, not a schedule- or fault-dependent behaviour.",
 "C13": "Pure SM9 tower / mod-N / G1 / G2 arithmetic on values.",
 "C16": "H1/H2 and key extraction are pure functions of (Ha) / (master key, identity); the quotient-estimate edge needs crafted 40-byte inputs, not schedules or faults.",
 "C18": "EEA3/EIA3 are pure functions of their arguments on a freshly constructed object; the property does not speak about reusing the object.",
}

def main():
    hooks_commits = subprocess.run(["git","-C","/repo","log","--format=%H %s"],capture_output=True,text=True).stdout.splitlines()
    hook_shas = [l.split()[0] for l in hooks_commits if "verif hook" in l]
    checks = []
    for pid,(level,ref,text,tech) in sorted(CHECKS.items()):
        checks.append({
            "property_id": pid,
            "quick_cmd": f"./check {pid} quick",
            "thorough_cmd": f"./check {pid} thorough",
            "evidence_file": f"/verif/evidence/{pid}.json",
            "replay_cmd_template": "./check --replay {path}",
            "engine": "gmsim",
            "level_claimed": {"category": level, "text": text + HIST, "design_ref": f"DESIGN.md section {ref} (and 3.7, 9, 15)"},
            "level_note": TRUST,
            "technique": tech,
        })
    claimed = set(CHECKS)
    na = [{"property_id":k,"reason":v} for k,v in sorted(NOT_APPLICABLE.items()) if k not in claimed]
    # properties planned but whose check is not built yet are listed honestly as not claimed
    allp = [json.loads(l)["id"] for l in open(os.path.join(HERE,"properties.jsonl"))]
    for pid in allp:
        if pid not in claimed and pid not in NOT_APPLICABLE:
            na.append({"property_id":pid,"reason":"applicable (DESIGN.md section 6) but its check is not built yet; not claimed until it is"})
    m = {
        "version": 1,
        "setup_cmd": "./setup.sh",
        "hooks": {
            "guard": "gm_rs_verif",
            "enable": "RUSTFLAGS=\"--cfg gm_rs_verif\" (set by ./check and by sim/.cargo/config.toml); the simulator links the five crates as path dependencies on /repo, so every check rebuilds from the working tree. In addition, and without any change in /repo, ./check compiles the gm_* crates with --extern std=sim/simstd (RUSTC_WRAPPER=sim/rustc-wrapper.sh): std with scheduling points at std::sync primitives",
            "baseline_off_cmd": "cd /repo && cargo test --workspace --no-fail-fast --offline --lib --tests",
            "source_commits": hook_shas,
            "add_only": True,
        },
        "engines": [{
            "name": "gmsim", "path": "/verif/sim", "serves_properties": sorted(claimed),
            "kind_free_text": "deterministic simulator: one PRNG (VERIF_SEED) decides sessions, inputs, interleaving, RNG candidates, faults and thread switches; world of byte slots (transport/storage) + stateful objects; reference-model peers; simulated caller threads (one runnable at a time, scheduling points at the RNG seam and at std::sync primitives through a std facade crate); simulated process environment (clock, pid) for fresh-process comparison; worker processes; replay files are explicit schedules; greedy schedule minimisation"
        }, {
            "name": "miri-stage", "path": "/verif/miri", "serves_properties": ["C03", "C04", "C05", "C06", "C08", "C14", "C15", "C17", "C19", "C20"],
            "kind_free_text": "second stage of the thorough tier (run by ./check): two-caller scenarios of the crates, built without hooks, interpreted by Miri with a seeded scheduler (-Zmiri-seed, pre-emption rate 0.05) and its data-race detector; one (scenario, seed) is one repeatable execution; for state shared through plain memory, which has no switch point in gmsim"
        }],
        "checks": checks,
        "not_applicable": sorted(na, key=lambda x: x["property_id"]),
        "notes": "Family of technique: deterministic simulation with fault injection. See DESIGN.md. Known findings / fixed defects: known_findings.jsonl.",
    }
    json.dump(m, open(os.path.join(HERE,"MANIFEST.json"),"w"), indent=1)
    print("MANIFEST.json written:", len(checks), "checks,", len(na), "not claimed")
if __name__ == "__main__":
    main()
