#!/usr/bin/env python3
"""Syntactic mutation sweep over the code the properties are anchored in.

For each generated one-token mutant of /repo (applied to a SCRATCH worktree, never to /repo):
  1. `cargo test --workspace --offline --lib` in the scratch tree: a failure = killed by the unit tests
     (not interesting here);
  2. otherwise the quick checks mapped to the mutated file are run from a scratch copy of /verif
     until one reports a violation (exit 1) -> "caught by <ID>"; all exit 0 -> "survived";
     exit 2 -> "harness error" (to be looked at).
Results are appended to /verif/mutation/results.jsonl (one line per mutant, resumable).
usage: mutation_sweep.py <lane> <lanes> [max_per_lane]      e.g. two lanes: `... 0 2` and `... 1 2`
"""
import json, os, re, subprocess, sys, hashlib, time
LANE, LANES = int(sys.argv[1]), int(sys.argv[2])
MAXN = int(sys.argv[3]) if len(sys.argv) > 3 else 10**9
TAG = f"_m{LANE}"
SR, SV = f"/tmp/gmrs_scratch_repo{TAG}", f"/tmp/gmrs_scratch_verif{TAG}"
SRC = os.environ.get("VERIF_SRC", "/verif")
OUT = "/verif/mutation/results.jsonl"

# file -> (line ranges or None for whole file, checks in the order they are tried)
TARGETS = {
 "gm-sm2/src/key.rs":       (None, ["C03", "C05", "C04", "C06", "C19", "C20", "C14"]),
 "gm-sm2/src/util.rs":      (None, ["C05", "C03", "C15", "C20"]),
 "gm-sm2/src/exchange.rs":  (None, ["C15", "C14"]),
 "gm-sm2/src/p256_ecc.rs":  ([(60, 140)], ["C19", "C05", "C06", "C20"]),
 "gm-sm2/src/pkcs.rs":      (None, ["C19", "C20"]),
 "gm-sm2/src/fields/fp64.rs": ([(88, 110)], ["C14", "C03"]),
 "gm-sm9/src/key.rs":       (None, ["C10", "C09", "C17", "C14", "C20"]),
 "gm-sm9/src/u256.rs":      ([(8, 30)], ["C14", "C09"]),
 "gm-zuc/src/lib.rs":       (None, ["C08"]),
}
OPS = [
 (r"(?<![<>=!])<=(?!=)", "<"), (r"(?<![<>=!\-])>=(?!=)", ">"), (r"(?<![<=>!\-])<(?![<=])", "<="), (r"(?<![<=>!\-])>(?![>=])", ">="),
 (r"==", "!="), (r"!=", "=="), (r"&&", "||"), (r"\|\|", "&&"),
 (r"\+ 1\b", "+ 2"), (r"- 1\b", "- 2"), (r"\+ 1\b", "+ 0"), (r"\b32\b", "31"), (r"\b64\b", "65"), (r"\b65\b", "64"), (r"\b33\b", "32"), (r"\b16\b", "15"),
 (r"\b0x01\b", "0x02"), (r"\b0x02\b", "0x03"), (r"\b0x03\b", "0x01"), (r"\b0x04\b", "0x06"),
 (r"\bcontinue;", "break;"), (r"\.is_zero\(\)", ".is_zero() == false"), (r"\bif !", "if "),
 (r"return Err\(([^;]*)\);", r"{ let _ = \1; }"),
]

def sh(cmd, cwd=None, env=None, timeout=None):
    return subprocess.run(cmd, shell=True, cwd=cwd, env=env, capture_output=True, text=True, timeout=timeout)

def mutants():
    out = []
    for rel, (ranges, checks) in TARGETS.items():
        data = open("/repo/" + rel, "rb").read()
        lines = data.split(b"\n")
        in_test = False
        for ln, raw in enumerate(lines, 1):
            txt = raw.decode("utf-8", "replace")
            if "#[cfg(test)]" in txt:
                in_test = True
            if in_test:
                continue
            if ranges and not any(a <= ln <= b for a, b in ranges):
                continue
            code = txt.split("//")[0]
            if not code.strip() or code.strip().startswith(("use ", "#", "pub const", "const ", "///")) or "cfg(gm_rs_verif)" in txt or "verif_hooks" in txt or "assert" in code:
                continue
            generic = any(t in code for t in ("Vec<", "Result<", "Option<", "::<", "->", "Box<", "impl<", "fn ", "&'"))
            for oi, (pat, rep) in enumerate(OPS):
                if generic and oi in (2, 3):
                    continue
                for m in re.finditer(pat, code):
                    new = code[:m.start()] + m.expand(rep) + code[m.end():] + txt[len(code):]
                    if new == txt:
                        continue
                    out.append({"file": rel, "line": ln, "op": oi, "col": m.start(), "old": txt.rstrip("\r"), "new": new.rstrip("\r"), "checks": checks})
    # stable pseudo-random order, so that a truncated sweep is a uniform sample
    out.sort(key=lambda m: hashlib.sha1(f"{m['file']}:{m['line']}:{m['op']}:{m['col']}".encode()).hexdigest())
    return out

def done_ids():
    s = set()
    if os.path.exists(OUT):
        for l in open(OUT):
            try: s.add(json.loads(l)["id"])
            except Exception: pass
    return s

def main():
    head = sh("git -C /repo rev-parse HEAD").stdout.strip()
    if not os.path.isdir(SR):
        assert sh(f"git -C /repo worktree add -q --detach {SR} {head}").returncode == 0
    sh(f"git checkout -q -- . && git checkout -q --detach {head} && cp /repo/Cargo.lock .", cwd=SR)
    sh(f"mkdir -p {SV} && rsync -a --delete --exclude target --exclude replays --exclude .git --exclude mutation {SRC}/ {SV}/ && sed -i 's#/repo/#{SR}/#g' {SV}/sim/Cargo.toml")
    ms = mutants()
    mine = [m for i, m in enumerate(ms) if i % LANES == LANE][:MAXN]
    print(f"lane {LANE}: {len(mine)} of {len(ms)} mutants", flush=True)
    seen = done_ids()
    env = dict(os.environ, CARGO_NET_OFFLINE="true")
    for m in mine:
        mid = f"{m['file']}:{m['line']}:{m['col']}:{m['op']}"
        if mid in seen:
            continue
        path = f"{SR}/{m['file']}"
        data = open(path, "rb").read()
        lines = data.split(b"\n")
        raw = lines[m["line"] - 1]
        cr = raw.endswith(b"\r")
        lines[m["line"] - 1] = m["new"].encode() + (b"\r" if cr else b"")
        open(path, "wb").write(b"\n".join(lines))
        t0 = time.time()
        res = {"id": mid, "file": m["file"], "line": m["line"], "old": m["old"].strip(), "new": m["new"].strip()}
        try:
            ut = sh("cargo test --workspace --offline --lib 2>&1 | grep -E '^test result|^error' | head -40", cwd=SR, env=env, timeout=1800).stdout
            passed = sum(int(x) for x in re.findall(r"ok\. (\d+) passed", ut))
            if "could not compile" in ut or "error[" in ut:
                res["outcome"] = "does-not-compile"
            elif "FAILED" in ut or passed != 41:
                res["outcome"] = "killed-by-unit-tests"
            else:
                res["outcome"] = "survived"
                for c in m["checks"]:
                    r = sh(f"./check {c} quick", cwd=SV, timeout=3600)
                    if r.returncode == 1:
                        first = next((l.strip() for l in r.stdout.splitlines() if "oracle=" in l), "") or next((l for l in r.stdout.splitlines() if l.startswith("VIOLATION")), "")
                        res["outcome"] = f"caught-by-{c}"; res["first"] = first[:240]
                        break
                    if r.returncode != 0:
                        res["outcome"] = f"harness-error-in-{c}"; res["first"] = "\n".join(r.stdout.splitlines()[-4:])[:400]
                        break
        except subprocess.TimeoutExpired:
            res["outcome"] = "timeout"
        res["secs"] = round(time.time() - t0, 1)
        open(path, "wb").write(data)
        with open(OUT, "a") as f:
            f.write(json.dumps(res) + "\n")
        print(res["outcome"], mid, res.get("first", "")[:100], flush=True)

main()
