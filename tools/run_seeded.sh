#!/bin/bash
# tools/run_seeded.sh <seeded/NAME | patch.diff> [check ids...]
# Applies the change to a SCRATCH worktree of /repo (never to /repo itself, so background runs are
# not disturbed), rebuilds a scratch copy of this directory's simulator against it, runs the checks
# (quick tier unless TIER is set) and prints which ones report a violation. The scratch copies live
# under /tmp/gmrs_scratch*; remove them with `tools/run_seeded.sh --clean`.
set -u
T="${SCRATCH_TAG:-}"; SR=/tmp/gmrs_scratch_repo$T; SV=/tmp/gmrs_scratch_verif$T
if [ "${1:-}" = "--clean" ]; then
  git -C /repo worktree remove --force $SR 2>/dev/null; rm -rf $SR $SV; git -C /repo worktree prune; exit 0
fi
P="$1"; shift
[ -d "$P" ] && P="$P/patch.diff"
P="$(cd "$(dirname "$P")" && pwd)/$(basename "$P")"
HEAD=$(git -C /repo rev-parse HEAD)
if [ ! -d $SR ]; then git -C /repo worktree add -q --detach $SR $HEAD || exit 2; fi
( cd $SR && git checkout -q -- . && git checkout -q --detach $HEAD && cp /repo/Cargo.lock . ) || exit 2
mkdir -p $SV && rsync -a --delete --exclude target --exclude replays --exclude .git "${VERIF_SRC:-/verif}"/ $SV/ && sed -i "s#/repo/#$SR/#g" $SV/sim/Cargo.toml
( cd $SR && git apply "$P" ) 2>/dev/null || { echo "patch does not apply: $P"; exit 2; }
CHECKS="${*:-$(python3 -c "import json;print(' '.join(c['property_id'] for c in json.load(open('/verif/MANIFEST.json'))['checks']))")}"
cd $SV
for c in $CHECKS; do
  out=$(./check $c "${TIER:-quick}" 2>&1); rc=$?
  echo "$out" > /tmp/gmrs_scratch_last${T}_$c.log
  nv=$(echo "$out" | grep -c '^VIOLATION')
  first=$(echo "$out" | grep -m1 'oracle=' | sed 's/step-count.*re-executions)://' | cut -c1-220)
  [ -z "$first" ] && first=$(echo "$out" | grep -m1 '^VIOLATION' | cut -c1-200)
  echo "$c rc=$rc violations=$nv $first"
done
( cd $SR && git checkout -q -- . )
