#!/bin/bash
# tools/run_seeded.sh <seeded/NAME> [check ids...]   apply the change to /repo, run the checks
# (quick tier), print which ones report a violation, and always undo the change afterwards.
set -u
D="$(cd "$1" && pwd)"; shift
cd /verif
if ! git -C /repo diff --quiet; then echo "refusing: /repo has uncommitted changes"; exit 2; fi
git -C /repo apply "$D/patch.diff" || { echo "patch does not apply"; exit 2; }
trap 'git -C /repo checkout -- . ' EXIT
CHECKS="${*:-$(python3 -c "import json;print(' '.join(c['property_id'] for c in json.load(open('/verif/MANIFEST.json'))['checks']))")}"
mkdir -p /tmp/seeded_ev
for c in $CHECKS; do
  cp evidence/$c.json /tmp/seeded_ev/$c.json.bak 2>/dev/null
  out=$(./check $c "${TIER:-quick}" 2>&1); rc=$?
  nv=$(echo "$out" | grep -c '^VIOLATION')
  first=$(echo "$out" | grep -m1 'oracle=' | sed 's/step-count.*re-executions)://' | cut -c1-220)
  echo "$c rc=$rc violations=$nv $first"
  cp /tmp/seeded_ev/$c.json.bak evidence/$c.json 2>/dev/null   # evidence must describe the unchanged tree
done
