#!/usr/bin/env python3
"""Run every seeded change (or the named ones) against its own property's check (+ extra checks given
in meta.json 'also_run'), record the outcome in meta.json, regenerate seeded/README.md."""
import json, os, subprocess, sys, glob, re
os.chdir('/verif')
names = sys.argv[1:] or sorted(os.path.basename(d) for d in glob.glob('seeded/*') if os.path.isfile(d + '/meta.json'))
for n in names:
    mp = f'seeded/{n}/meta.json'; m = json.load(open(mp))
    checks = [m['breaks_property']] + m.get('also_run', [])
    out = subprocess.run(['tools/run_seeded.sh', f'seeded/{n}'] + checks, capture_output=True, text=True).stdout
    res = {}
    for line in out.splitlines():
        mm = re.match(r'^(C\d+) rc=(\d+) violations=(\d+)\s*(.*)$', line)
        if mm:
            res[mm.group(1)] = {"exit": int(mm.group(2)), "violation_groups": int(mm.group(3)), "first": mm.group(4).strip()}
    if not res:
        res = {"error": out[-400:]}
    m['checks_run'] = res
    m['tree'] = subprocess.run(['git','-C','/repo','rev-parse','--short','HEAD'],capture_output=True,text=True).stdout.strip()
    json.dump(m, open(mp, 'w'), indent=1)
    print(n, {k: (v.get('exit'), v.get('violation_groups')) if isinstance(v, dict) else v for k, v in res.items()}, flush=True)
# README
rows=[]
for d in sorted(glob.glob('seeded/*')):
    if not os.path.isfile(d+'/meta.json'): continue
    m=json.load(open(d+'/meta.json'))
    caught=[f"{k}: {v['first'][:100]}" for k,v in m.get('checks_run',{}).items() if isinstance(v,dict) and v.get('exit')==1]
    rows.append(f"| `{os.path.basename(d)}` | {m['breaks_property']} | {m.get('round','')} | {m['needs_to_manifest']} | {'yes' if m.get('caught_before_any_strengthening') else 'no'} | {m.get('strengthening_it_prompted','—')} | {'<br>'.join(caught) if caught else ('not in the quick tier; ' + m['thorough_tier'] if m.get('thorough_tier') else '**not caught**')} |")
HEADER = """# Seeded property-breaking changes

Each directory: `patch.diff` (applies to /repo's HEAD), `demo.rs` (fails with the change, passes without), `NOTES.md` (the author's description), `meta.json` (property, what it needs to manifest, what was run). All were written by sub-agents that saw only the property text, a scratch worktree and the list of earlier ideas (round 6 additionally a black-box description of what the checks can do, and the request to evade it), were confirmed with `tools/confirm_mutant.sh` (patch applies; 41 unit tests pass with it; demonstration fails with it and passes without), and are exercised with `tools/run_seeded.sh` / `tools/seeded_all.py` (quick tier; the change is applied to a scratch worktree of /repo, never to /repo itself; the checks run from a scratch copy of /verif).

'caught before' = caught by the checks as they were when the change arrived; the next column says what was added because of it. The last column is the outcome of the last regression run of the QUICK tier; where a change is reported by the thorough tier only, that is said there (and was verified as described).

Other material here: `benign/` (behaviour-preserving refactors that must stay green), `selfmade/` (changes of my own that exercise one path of the machinery each), `sweep/` (survivors of the syntactic mutation sweep that turned out to be real gaps).

| change | property | round | needs in order to manifest | caught before | strengthening it prompted | caught by now (quick tier) |
|---|---|---|---|---|---|---|
"""
open('seeded/README.md','w').write(HEADER+"\n".join(rows)+"\n")
