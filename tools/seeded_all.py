#!/usr/bin/env python3
"""Run every seeded change (or the named ones) against its own property's check (+ extra checks given
in meta.json 'also_run'), record the outcome in meta.json, regenerate seeded/README.md."""
import json, os, subprocess, sys, glob, re
os.chdir('/verif')
names = sys.argv[1:] or sorted(os.path.basename(d) for d in glob.glob('seeded/*') if os.path.isfile(d + '/meta.json'))
for n in names:
    mp = f'seeded/{n}/meta.json'; m = json.load(open(mp))
    checks = [m['breaks_property']] + m.get('also_run', [])
    out = subprocess.run(['tools/run_seeded.sh', f'seeded/{n}'] + checks, capture_output=True, text=True).stdout
    res = {}
    for line in out.splitlines():
        mm = re.match(r'^(C\d+) rc=(\d+) violations=(\d+)\s*(.*)$', line)
        if mm:
            res[mm.group(1)] = {"exit": int(mm.group(2)), "violation_groups": int(mm.group(3)), "first": mm.group(4).strip()}
    if not res:
        res = {"error": out[-400:]}
    m['checks_run'] = res
    m['tree'] = subprocess.run(['git','-C','/repo','rev-parse','--short','HEAD'],capture_output=True,text=True).stdout.strip()
    json.dump(m, open(mp, 'w'), indent=1)
    print(n, {k: (v.get('exit'), v.get('violation_groups')) if isinstance(v, dict) else v for k, v in res.items()}, flush=True)
# README
rows=[]
for d in sorted(glob.glob('seeded/*')):
    if not os.path.isfile(d+'/meta.json'): continue
    m=json.load(open(d+'/meta.json'))
    caught=[f"{k}: {v['first'][:100]}" for k,v in m.get('checks_run',{}).items() if isinstance(v,dict) and v.get('exit')==1]
    rows.append(f"| `{os.path.basename(d)}` | {m['breaks_property']} | {m.get('round','')} | {m['needs_to_manifest']} | {'yes' if m.get('caught_before_any_strengthening') else 'no'} | {m.get('strengthening_it_prompted','—')} | {'<br>'.join(caught) if caught else ('not in the quick tier; ' + m['thorough_tier'] if m.get('thorough_tier') else '**not caught**')} |")
open('seeded/README.md','w').write("# Seeded property-breaking changes\n\nEach directory: `patch.diff` (applies to /repo's HEAD), `demo.rs` (fails with the change, passes without), `NOTES.md` (the author's description), `meta.json` (property, what it needs to manifest, what was run). All were written by sub-agents that saw only the property text and a scratch worktree, were confirmed with `tools/confirm_mutant.sh` (patch applies; 41 unit tests pass with it; demonstration fails with it and passes without), and are exercised with `tools/run_seeded.sh` / `tools/seeded_all.py` (quick tier; the change is applied to /repo, the checks run, the change is undone).\n\n'caught before' = caught by the checks as they were when the change arrived (evaluated with the previous commit of /verif built in a scratch worktree); the next column says what was added because of it.\n\n| change | property | round | needs in order to manifest | caught before | strengthening it prompted | caught by now (quick tier) |\n|---|---|---|---|---|---|---|\n"+"\n".join(rows)+"\n")
